// Prototype: C04 greedy wrap reference vs implementation
use html2text::config;
use unicode_width::UnicodeWidthChar;
use std::collections::BTreeMap;

fn cw(c: char) -> usize { UnicodeWidthChar::width(c).unwrap_or(0) }
fn sw(s: &str) -> usize { s.chars().map(cw).sum() }

/// reference greedy wrapper. words: non-empty strings without whitespace.
fn greedy(words: &[String], width: usize) -> Result<Vec<String>, ()> {
    let mut lines = vec![]; let mut line = String::new(); let mut ll = 0usize;
    for w in words {
        let wl = sw(w);
        let need = if ll > 0 || !line.is_empty() { 1 } else { 0 } + wl;
        if ll + need <= width { if !line.is_empty() { line.push(' '); ll += 1; } line.push_str(w); ll += wl; continue; }
        if !line.is_empty() { lines.push(std::mem::take(&mut line)); ll = 0; }
        if wl <= width { line.push_str(w); ll = wl; continue; }
        for c in w.chars() {
            let c_w = cw(c);
            if ll + c_w > width {
                if line.is_empty() { return Err(()); }
                lines.push(std::mem::take(&mut line)); ll = 0;
                if c_w > width { return Err(()); }
            }
            line.push(c); ll += c_w;
        }
    }
    if !line.is_empty() { lines.push(line); }
    Ok(lines)
}

fn main() {
    std::panic::set_hook(Box::new(|_| {}));
    let atoms: Vec<&str> = vec!["a","bb","ccc","dddd","eeeee","ffffff","ggggggg","中","x中","中y","中中","e\u{301}","中中中中", "\u{301}z"];
    let maxw = 10usize;
    let nwords: usize = std::env::args().nth(1).map(|s| s.parse().unwrap()).unwrap_or(3);
    let mut n = 0usize; let mut bad: BTreeMap<String,(usize,String)> = BTreeMap::new();
    let mut idx = vec![0usize; nwords];
    // enumerate k = 1..=nwords
    for k in 1..=nwords {
        let total = atoms.len().pow(k as u32);
        for code in 0..total {
            let mut c = code; for i in 0..k { idx[i] = c % atoms.len(); c /= atoms.len(); }
            let words: Vec<String> = (0..k).map(|i| atoms[idx[i]].to_string()).collect();
            // markup variants
            let variants: Vec<String> = vec![
                format!("<p>{}</p>", words.join(" ")),
                format!("<p> {} </p>", words.join(" \n\t ")),
                format!("<p>{}</p>", words.iter().enumerate().map(|(i,w)| if i%2==0 { format!("<em>{w}</em>") } else { w.clone() }).collect::<Vec<_>>().join(" ")),
                format!("<p>{}</p>", words.iter().enumerate().map(|(i,w)| { let mut cs = w.chars(); let f = cs.next().unwrap(); let rest: String = cs.collect(); if i%2==1 { format!("{f}<strong>{rest}</strong>") } else { format!("<span>{f}</span>{rest}") } }).collect::<Vec<_>>().join("<code> </code>")),
                format!("<div>{}</div>", words.join("<span> </span>")),
            ];
            for (vi, html0) in variants.iter().enumerate() {
              for ctx in 0..4 {
                for w in 1..=maxw {
                    n += 1;
                    let (html, eff, pfx1, pfxn): (String, usize, &str, &str) = match ctx { 0 => (html0.clone(), w, "", ""), 1 => (format!("<ul><li>{html0}</li></ul>"), w.saturating_sub(2), "* ", "  "), 2 => (format!("<blockquote>{html0}</blockquote>"), w.saturating_sub(2), "> ", "> "), _ => (html0.clone(), w.min(4), "", "") };
                    let exp = if eff == 0 { Err(()) } else { greedy(&words, eff).map(|l| l.iter().enumerate().map(|(i,x)| format!("{}{}\n", if i==0 {pfx1} else {pfxn}, x)).collect::<String>()) };
                    let h = html.clone();
                    let got = std::panic::catch_unwind(move || if ctx == 3 { config::rich().max_wrap_width(4).string_from_read(h.as_bytes(), w) } else { config::rich().string_from_read(h.as_bytes(), w) });
                    let ok = match (&exp, &got) { (Ok(e), Ok(Ok(g))) => e == g, (_, Ok(Err(html2text::Error::TooNarrow))) if ctx == 1 || ctx == 2 => true, (Err(()), Ok(Err(html2text::Error::TooNarrow))) => true, _ => false };
                    if !ok { let key = format!("variant{vi} ctx{ctx}"); let e = bad.entry(key).or_insert((0, format!("{html:?} @{w}: exp={exp:?} got={:?}", got.as_ref().map(|r| r.as_ref().map_err(|e| format!("{e:?}"))).map_err(|_| "PANIC")))); e.0 += 1; }
                }
              }
            }
        }
    }
    println!("evaluations={n} mismatching classes={}", bad.len());
    for (k,(c,e)) in &bad { println!("{c:7} {k}: {e}"); }
}
