// Prototype: C17 CSS syntax equivalence + totality
use html2text::config;
use std::collections::BTreeMap;
#[derive(Clone)] struct Rule { sel: &'static str, decls: Vec<(&'static str, &'static str, bool)> }
fn render(rules: &[Rule], v: usize) -> String {
    let mut s = String::new();
    let junk_at = "@media print { p { color: blue; } }"; let junk_at2 = "@import \"x.css\";"; let junk_rule = "q{{}}"; let junk_rule2 = "!!! { color: red; }"; let junk_rule3 = "p:hover{color:red;}";
    match v { 10 => s += junk_at, 11 => s += junk_at2, 12 => s += junk_rule, 13 => s += junk_rule2, 17 => s += junk_rule3, _ => {} }
    for (i, r) in rules.iter().enumerate() {
        if i > 0 { match v { 14 => s += junk_at, 15 => s += junk_rule, 18 => s += junk_rule3, _ => {} } }
        let c = if v == 3 { "/*c*/" } else { "" };
        let (sp, nl) = match v { 1 => ("", ""), 2 => (" ", "\n"), _ => (" ", "") };
        s += &format!("{c}{}{c}{sp}{{{nl}", r.sel);
        if v == 6 { s += &format!("frob:{sp}nicate;{nl}"); }
        for (j, (p, val, imp)) in r.decls.iter().enumerate() {
            let last = j + 1 == r.decls.len();
            let p2 = if v == 8 { p.to_uppercase() } else { p.to_string() }; let val2 = if v == 9 { val.to_uppercase() } else { val.to_string() };
            s += &format!("{c}{sp}{p2}{c}:{sp}{c}{val2}{}{c}", if *imp { " !important" } else { "" });
            if !(last && v == 4) { s += ";"; } if last && v == 5 { s += ";"; } if !last && v == 19 { s += ";"; }
            s += nl;
        }
        if v == 7 { s += &format!("frob:{sp}nicate;{nl}"); }
        s += &format!("}}{nl}");
    }
    match v { 16 => s += junk_at, 20 => s += junk_rule, 21 => s += "@", 22 => s += "garbage", _ => {} }
    s
}
fn main() {
    std::panic::set_hook(Box::new(|_| {}));
    let sels = ["p", ".a", "p.a", "div p", "#i", "div > p", "p, span"];
    let decls: Vec<(&str,&str)> = vec![("color","#0a0b0c"), ("background-color","#0d0e0f"), ("display","none"), ("color","red"), ("color","rgb(1,2,3)")];
    let mut rulesets: Vec<Vec<Rule>> = vec![];
    let mut singles: Vec<Rule> = vec![];
    for s in sels { for (p,v) in &decls { for imp in [false,true] { singles.push(Rule{sel:s, decls: vec![(p,v,imp)]}); } } singles.push(Rule{sel:s, decls: vec![("color","#0a0b0c",false),("background-color","#0d0e0f",false)]}); }
    for r in &singles { rulesets.push(vec![r.clone()]); }
    for (i,r) in singles.iter().enumerate() { for r2 in singles.iter().skip(i%7).step_by(7) { rulesets.push(vec![r.clone(), r2.clone()]); } }
    let doc = "<div><p class=a id=i>k <span>l</span></p><p>m</p></div><p class=a>n</p><span>o</span>";
    let names = ["base","minify","pretty","comments","drop-final-semi","double-final-semi","unknown-prop-first","unknown-prop-last","upper-prop","upper-value","at-media-before","at-import-before","junk{{}}-before","junk!!!-before","at-between","junk-between","at-after","unsupported-pseudo-before","unsupported-pseudo-between","double-inner-semi","junk-after","at-after-bare","garbage-after"];
    let mut n=0usize; let mut bad: BTreeMap<String,(usize,String)> = BTreeMap::new();
    for rs in &rulesets { let base = render(rs, 0);
        let run = |css: &str| { let c = css.to_string(); std::panic::catch_unwind(move || config::rich().add_css(&c).map(|cfg| cfg.lines_from_read(doc.as_bytes(), 40).map(|l| format!("{l:?}")))).map_err(|_| "PANIC").map(|r| r.map_err(|e| format!("{e:?}")).map(|r| r.map_err(|e| format!("{e:?}")))) };
        let b = run(&base);
        for v in 1..names.len() { n+=1; let css = render(rs, v); let r = run(&css); if r != b { let e = bad.entry(names[v].to_string()).or_insert((0, format!("{base:?} vs {css:?}"))); e.0+=1; } }
    }
    println!("C17 evaluations={n} rulesets={} bad classes={}", rulesets.len(), bad.len());
    for (k,(c,e)) in &bad { let ee: String = e.chars().take(300).collect(); println!("{c:7} {k}: {ee}"); }
}
