// Prototype: C03 on token-level corrupted documents, oracle DOM from independent sink
use html2text::config;
use probe::*;
use probe::sinklib;
use std::collections::BTreeMap;
fn tokens(h: &str) -> Vec<String> { let mut v = vec![]; let mut cur = String::new(); let mut in_tag = false; for c in h.chars() { if c == '<' { if !cur.is_empty() { v.push(std::mem::take(&mut cur)); } in_tag = true; cur.push(c); } else if c == '>' && in_tag { cur.push(c); v.push(std::mem::take(&mut cur)); in_tag = false; } else { cur.push(c); } } if !cur.is_empty() { v.push(cur); } v }
fn main() {
    std::panic::set_hook(Box::new(|_| {}));
    let depth: usize = std::env::args().nth(1).map(|s| s.parse().unwrap()).unwrap_or(1);
    let docs = block_docs(depth, true, true);
    let mut n=0usize; let mut bad: BTreeMap<String,(usize,String)> = BTreeMap::new(); let mut ndocs = 0usize;
    for d in &docs { let h = html(d); let toks = tokens(&h); let mut muts: Vec<String> = vec![h.clone()];
        for i in 0..toks.len() { if toks[i].starts_with('<') { let mut t = toks.clone(); t.remove(i); muts.push(t.concat()); let mut t = toks.clone(); t.insert(i, toks[i].clone()); muts.push(t.concat()); } if i+1 < toks.len() { let mut t = toks.clone(); t.swap(i, i+1); muts.push(t.concat()); } }
        for m in &muts { ndocs += 1; let dom = sinklib::parse(m.as_bytes()); let v_strict: String = sinklib::visible(&dom, true).chars().filter(|c| is_tok(*c)).collect(); let v_lists: String = sinklib::visible(&dom, false).chars().filter(|c| is_tok(*c)).collect();
            let has_table = m.contains("<table");
            for w in [1usize, 3, 6, 12, 40] { for cfg in 0..2 { n+=1; let mm = m.clone();
                let r = std::panic::catch_unwind(move || if cfg == 0 { config::with_decorator(html2text::render::TrivialDecorator::new()).string_from_read(mm.as_bytes(), w) } else { config::plain().raw_mode(true).link_footnotes(false).string_from_read(mm.as_bytes(), w) });
                match r { Err(_) => { let e = bad.entry("PANIC".into()).or_insert((0, format!("{m} @{w}"))); e.0+=1; } Ok(Err(_)) => {}
                    Ok(Ok(s)) => { let got: String = s.chars().filter(|c| is_tok(*c)).collect();
                        let eq = |a: &str, b: &str| if has_table && cfg == 0 { let mut x: Vec<char> = a.chars().collect(); let mut y: Vec<char> = b.chars().collect(); x.sort(); y.sort(); x == y } else { a == b };
                        if !eq(&got, &v_strict) { let key = if eq(&got, &v_lists) { "known: ol/dl stray children dropped" } else if v_strict.len() > got.len() { "text lost" } else if v_strict.len() < got.len() { "text invented/dup" } else { "reordered" }; let e = bad.entry(format!("cfg{cfg} {key}")).or_insert((0, format!("{m} @{w}: exp={v_strict:?} got={got:?}"))); e.0+=1; } } }
            } } }
    }
    println!("C03m docs={ndocs} evaluations={n} bad classes={}", bad.len());
    for (k,(c,e)) in &bad { let ee: String = e.chars().take(400).collect(); println!("{c:7} {k}: {ee}"); }
}
