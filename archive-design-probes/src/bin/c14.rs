// Prototype: C14 fragment markers
use html2text::config;
use html2text::render::TaggedLineElement;
use probe::*;
use std::collections::BTreeMap;

// add ids to every element in turn (one id'd element per doc variant); returns (html, id, preceding_token_count, has_visible)
fn count_tok(ns: &[N]) -> usize { let mut s = String::new(); flow(ns, &mut s); s.chars().filter(|&c| is_tok(c)).count() }
fn variants(doc: &[N]) -> Vec<(Vec<N>, usize, usize)> {
    // enumerate element paths
    fn walk(ns: &[N], path: &mut Vec<usize>, out: &mut Vec<Vec<usize>>) { for (i,n) in ns.iter().enumerate() { if let N::E(tag,_,kids) = n { path.push(i); if !["br"].contains(tag) { out.push(path.clone()); } walk(kids, path, out); path.pop(); } } }
    let mut paths = vec![]; walk(doc, &mut vec![], &mut paths);
    let mut res = vec![];
    for p in paths {
        let mut d = doc.to_vec(); let mut before = 0usize; let mut vis = 0usize;
        fn apply(ns: &mut Vec<N>, p: &[usize], before: &mut usize, vis: &mut usize) { let i = p[0]; *before += count_tok(&ns[..i]); if let N::E(tag, attrs, kids) = &mut ns[i] { if p.len() == 1 { attrs.push(("id", "F".into())); *vis = if *tag == "img" { let mut s=String::new(); for (k,v) in attrs.iter() { if *k=="alt" { s.push_str(v); } } s.chars().filter(|&c| is_tok(c)).count() } else { count_tok(kids) }; } else { apply(kids, &p[1..], before, vis); } } }
        apply(&mut d, &p, &mut before, &mut vis);
        res.push((d, before, vis));
    }
    res
}
fn main() {
    std::panic::set_hook(Box::new(|_| {}));
    let depth: usize = std::env::args().nth(1).map(|s| s.parse().unwrap()).unwrap_or(1);
    let tables: bool = std::env::args().nth(2).map(|s| s=="t").unwrap_or(false);
    let maxw = 14;
    let docs = block_docs(depth, tables, true);
    let mut n = 0usize; let mut bad: BTreeMap<String,(usize,String)> = BTreeMap::new();
    for d in &docs { let h0 = html(d);
        for (dv, before, vis) in variants(d) { let h = html(&dv);
            for w in 1..=maxw { n += 1;
                let hh = h.clone(); let r = std::panic::catch_unwind(move || config::rich().lines_from_read(hh.as_bytes(), w));
                let hh0 = h0.clone(); let r0 = std::panic::catch_unwind(move || config::rich().lines_from_read(hh0.as_bytes(), w));
                let (lines, lines0) = match (r, r0) { (Ok(Ok(a)), Ok(Ok(b))) => (a,b), (Ok(Err(_)), Ok(Err(_))) => continue, _ => { let e = bad.entry("result-kind-differs".into()).or_insert((0, format!("{h} @{w}"))); e.0+=1; continue; } };
                // text unchanged
                let txt = |ls: &Vec<html2text::render::TaggedLine<Vec<html2text::render::RichAnnotation>>>| ls.iter().map(|l| l.tagged_strings().map(|t| t.s.clone()).collect::<String>()).collect::<Vec<_>>();
                if txt(&lines) != txt(&lines0) { let e = bad.entry("text-changed".into()).or_insert((0, format!("{h} @{w}"))); e.0+=1; }
                let mut count = 0usize; let mut marks = vec![];
                for l in &lines { for el in l.iter() { match el { TaggedLineElement::Str(ts) => count += ts.s.chars().filter(|&c| is_tok(c)).count(), TaggedLineElement::FragmentStart(f) => marks.push((f.clone(), count)) } } }
                let tagname = { fn find<'a>(ns: &'a [N]) -> Option<&'a str> { for n in ns { if let N::E(t, a, k) = n { if a.iter().any(|(k,_)| *k=="id") { return Some(t); } if let Some(x) = find(k) { return Some(x); } } } None } find(&dv).unwrap_or("?").to_string() };
                if vis > 0 {
                    if marks.len() != 1 { let e = bad.entry(format!("{tagname}: marker count {}", marks.len())).or_insert((0, format!("{h} @{w}: {lines:?}"))); e.0+=1; }
                    else if !tables && marks[0].1 != before { let e = bad.entry(format!("{tagname}: marker pos off by {}", marks[0].1 as i64 - before as i64)).or_insert((0, format!("{h} @{w}: before={before} got={}\n{lines:?}", marks[0].1))); e.0+=1; }
                } else if marks.len() > 1 { let e = bad.entry("dup".into()).or_insert((0, format!("{h} @{w}"))); e.0+=1; }
            }
        }
    }
    println!("C14 evaluations={n} bad classes={}", bad.len());
    for (k,(c,e)) in &bad { let ee: String = e.chars().take(700).collect(); println!("{c:7} {k}: {ee}"); }
}
