use html2text::config;
use unicode_width::UnicodeWidthStr;
use std::collections::BTreeMap;
fn inlines() -> Vec<&'static str> { vec!["a", "bb cc", "ddddddd", "中", "x中y z", "<a href=\"u\">l</a>", "<em>e</em> f", "g<br>h", "<img src=s alt=i>", "e\u{301}"] }
fn blocks(depth: usize) -> Vec<String> {
    let mut out: Vec<String> = vec![];
    let inl = inlines();
    if depth == 0 { for i in &inl { out.push(i.to_string()); } return out; }
    let sub = blocks(depth-1);
    for s in &sub {
        out.push(format!("<p>{s}</p>"));
        out.push(format!("<div>{s}</div>"));
        out.push(format!("<ul><li>{s}</li></ul>"));
        out.push(format!("<ol><li>{s}</li></ol>"));
        out.push(format!("<ol start=9><li>{s}</li><li>q</li></ol>"));
        out.push(format!("<blockquote>{s}</blockquote>"));
        out.push(format!("<h2>{s}</h2>"));
        out.push(format!("<pre>{s}</pre>"));
        out.push(format!("<dl><dt>{s}</dt><dd>{s}</dd></dl>"));
        out.push(format!("<table><tr><td>{s}</td></tr></table>"));
        out.push(format!("<table><tr><td>{s}</td><td>k</td></tr></table>"));
        out.push(format!("<table><tr><td>k</td><td>{s}</td></tr><tr><td colspan=2>{s}</td></tr></table>"));
        out.push(format!("<table><tr><td>{s}</td><td>m</td><td>n</td></tr><tr><td colspan=2>{s}</td><td>o</td></tr></table>"));
    }
    out.extend(sub);
    out
}
fn main() {
    let depth: usize = std::env::args().nth(1).map(|s| s.parse().unwrap()).unwrap_or(2);
    let maxw: usize = std::env::args().nth(2).map(|s| s.parse().unwrap()).unwrap_or(12);
    std::panic::set_hook(Box::new(|_| {}));
    let docs = blocks(depth);
    eprintln!("{} docs", docs.len());
    let mut viol: BTreeMap<String, (usize, String)> = BTreeMap::new();
    let mut n = 0usize; let mut panics = 0;
    for d in &docs {
        for w in 1..=maxw {
            for cfg in 0..3 {
                let dd = d.clone();
                let r = std::panic::catch_unwind(move || match cfg { 0 => config::plain().string_from_read(dd.as_bytes(), w), 1 => config::plain().pad_block_width().string_from_read(dd.as_bytes(), w), _ => config::plain().no_table_borders().string_from_read(dd.as_bytes(), w)});
                n += 1;
                match r {
                    Err(_) => { panics += 1; let e = viol.entry(format!("PANIC cfg{cfg}")).or_insert((0, format!("{d} @{w}"))); e.0 += 1; }
                    Ok(Err(_)) => {}
                    Ok(Ok(s)) => {
                        for l in s.lines() { if l.width() > w {
                            // classify by outermost tags
                            let tags: Vec<&str> = d.split('<').filter(|t| !t.starts_with('/') && !t.is_empty()).map(|t| t.split(|c| c=='>'||c==' ').next().unwrap()).filter(|t| ["table","pre","ul","ol","blockquote","h2","dl","a","img"].contains(t)).collect();
                            let key = format!("cfg{cfg} over by {} tags={:?}", l.width()-w, tags);
                            let e = viol.entry(key).or_insert((0, format!("{d} @{w}: {l:?}"))); e.0 += 1; break; } }
                    }
                }
            }
        }
    }
    println!("evaluations={n} panics={panics} violation classes={}", viol.len());
    for (k,(c,ex)) in &viol { println!("{c:6} {k}\n        e.g. {ex}"); }
}
