// Prototype: C19 cascade
use html2text::config;
use html2text::render::RichAnnotation;
use std::collections::BTreeMap;
#[derive(Clone, Copy, Debug, PartialEq)] enum Origin { Agent, User, Author, Inline }
#[derive(Clone, Copy, Debug)] struct Decl { origin: Origin, important: bool, sel: usize, colour: usize }
const SELS: [(&str, (u32,u32,u32)); 5] = [("p",(0,0,1)), (".c",(0,1,0)), ("#i",(1,0,0)), ("p.c",(0,1,1)), ("p:nth-child(1)",(0,1,1))];
const COLS: [(&str,(u8,u8,u8)); 3] = [("#010101",(1,1,1)), ("#020202",(2,2,2)), ("#030303",(3,3,3))];
fn rank(d: &Decl, idx: usize) -> (u32, u32, (u32,u32,u32), usize) {
    let class = match (d.origin, d.important) { (Origin::Agent,false)=>0,(Origin::User,false)=>1,(Origin::Author,false)|(Origin::Inline,false)=>2,(Origin::Author,true)|(Origin::Inline,true)=>3,(Origin::User,true)=>4,(Origin::Agent,true)=>5 };
    let inline = if d.origin == Origin::Inline { 1 } else { 0 };
    (class, inline, if inline==1 {(0,0,0)} else { SELS[d.sel].1 }, idx)
}
fn main() {
    std::panic::set_hook(Box::new(|_| {}));
    let mut all: Vec<(Origin,bool,usize)> = vec![];
    for o in [Origin::Agent, Origin::User, Origin::Author] { for imp in [false,true] { for s in 0..SELS.len() { all.push((o,imp,s)); } } }
    for imp in [false,true] { all.push((Origin::Inline, imp, 0)); }
    let mut n=0usize; let mut bad: BTreeMap<String,(usize,String)> = BTreeMap::new();
    for (i,&a) in all.iter().enumerate() { for (j,&b) in all.iter().enumerate() {
        let _ = (i,j);
        let decls = [Decl{origin:a.0,important:a.1,sel:a.2,colour:0}, Decl{origin:b.0,important:b.1,sel:b.2,colour:1}];
        if decls.iter().filter(|d| d.origin==Origin::Inline).count() > 1 { /* two inline decls in one attr: order matters */ }
        // build sheets in declaration order per origin
        let mut agent = String::new(); let mut user = String::new(); let mut author = String::new(); let mut inline = String::new();
        for d in &decls { let imp = if d.important { " !important" } else { "" }; let rule = format!("{} {{ color: {}{}; }}\n", SELS[d.sel].0, COLS[d.colour].0, imp);
            match d.origin { Origin::Agent => agent += &rule, Origin::User => user += &rule, Origin::Author => author += &rule, Origin::Inline => inline += &format!("color: {}{};", COLS[d.colour].0, imp) } }
        let html = format!("<style>{author}</style><p id=i class=c style=\"{inline}\">x</p>");
        // expected: within same origin, order = order in decls; across origins the sheet order doesn't matter for rank except same class+spec -> later origin? (different origins always different class unless Author vs Inline)
        let mut best = 0; for k in 1..decls.len() { if rank(&decls[k],k) >= rank(&decls[best],best) { best = k; } }
        // tie between Author and Inline can't happen (inline flag). 
        let exp = COLS[decls[best].colour].1;
        n += 1;
        let (ag,us,h) = (agent.clone(), user.clone(), html.clone());
        let r = std::panic::catch_unwind(move || config::rich().use_doc_css().add_agent_css(&ag).unwrap().add_css(&us).unwrap().lines_from_read(h.as_bytes(), 20));
        let got = match r { Ok(Ok(lines)) => { let mut c = None; for l in &lines { for ts in l.tagged_strings() { if ts.s.contains('x') { for t in &ts.tag { if let RichAnnotation::Colour(col) = t { c = Some((col.r,col.g,col.b)); } } } } } c }, _ => None };
        if got != Some(exp) { let key = format!("{:?}{} vs {:?}{}", a.0, if a.1 {"!"} else {""}, b.0, if b.1 {"!"} else {""}); let e = bad.entry(key).or_insert((0, format!("agent={agent:?} user={user:?} html={html:?} exp={exp:?} got={got:?}"))); e.0+=1; }
    } }
    println!("C19 evaluations={n} bad classes={}", bad.len());
    for (k,(c,e)) in &bad { println!("{c:5} {k}: {e}"); }
}
