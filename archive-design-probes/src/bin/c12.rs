// Prototype: C12 pre
use html2text::config;
use html2text::render::{RichAnnotation, TaggedLineElement};
use probe::*;
use std::collections::BTreeMap;
fn expand(l: &str) -> String { let mut out = String::new(); let mut col = 0; for c in l.chars() { if c == '\t' { let n = 8 - col % 8; for _ in 0..n { out.push(' '); } col += n; } else { out.push(c); col += cw(c); } } out }
fn main() {
    std::panic::set_hook(Box::new(|_| {}));
    let atoms = ["", "ab", "ab cd", "  ab", "ab  ", "a\tb", "\tab", "ab\t", "中a 中", "abcdefgh", "a   b", " ", "abcdefg\tx"];
    let nl: usize = std::env::args().nth(1).map(|s| s.parse().unwrap()).unwrap_or(2);
    let maxw = 18;
    let mut n = 0usize; let mut bad: BTreeMap<String,(usize,String)> = BTreeMap::new(); let mut fits=0usize;
    for k in 1..=nl { for code in 0..atoms.len().pow(k as u32) { let mut c = code; let src: Vec<&str> = (0..k).map(|_| { let a = atoms[c % atoms.len()]; c /= atoms.len(); a }).collect();
        let body = src.join("\n");
        for (ctx, open, close, pfx) in [("top","<pre>","</pre>",0usize), ("li","<ul><li><pre>","</pre></li></ul>",2), ("bq","<blockquote><pre>","</pre></blockquote>",2)] {
            let h = format!("{open}{body}{close}");
            for w in 1..=maxw { n += 1; let hh = h.clone();
                let r = std::panic::catch_unwind(move || config::rich().lines_from_read(hh.as_bytes(), w));
                let lines = match r { Err(_) => { let e = bad.entry("PANIC".into()).or_insert((0, format!("{h:?} @{w}"))); e.0+=1; continue; } Ok(Err(_)) => continue, Ok(Ok(l)) => l };
                let avail = w - pfx;
                let out: Vec<String> = lines.iter().map(|l| { let s: String = l.tagged_strings().map(|t| t.s.clone()).collect(); s.chars().skip(pfx).collect() }).collect();
                let exp: Vec<String> = src.iter().map(|l| expand(l)).collect();
                let maxlen = exp.iter().map(|l| sw(l)).max().unwrap();
                let trim_tail = |v: Vec<String>| { let mut v = v; while v.last().map(|l| l.trim_end().is_empty()).unwrap_or(false) { v.pop(); } v };
                if maxlen <= avail { fits += 1;
                    let e2 = trim_tail(exp.iter().map(|l| l.trim_end_matches(' ').to_string()).collect());
                    let o2 = trim_tail(out.iter().map(|l| l.to_string()).collect());
                    // leading empty lines: html drops first newline
                    let e2 = if src[0].is_empty() && k > 1 { e2[1.min(e2.len())..].to_vec() } else { e2 };
                    if e2 != o2 { let o3: Vec<String> = o2.iter().map(|l| l.trim_end().to_string()).collect();
                        let key = if e2 == o3 { "fits: trailing-space only" } else { "fits: mismatch" };
                        let e = bad.entry(format!("{ctx} {key}")).or_insert((0, format!("{h:?} @{w}: exp={e2:?} got={o2:?}"))); e.0 += 1; }
                } else {
                    // conservation + width + order of nonspace
                    let en: String = exp.concat().chars().filter(|c| !c.is_whitespace()).collect(); let on: String = out.concat().chars().filter(|c| !c.is_whitespace()).collect();
                    if en != on { let e = bad.entry(format!("{ctx} overflow: nonspace differs")).or_insert((0, format!("{h:?} @{w}: got={out:?}"))); e.0 += 1; }
                    for l in &lines { let wd: usize = l.tagged_strings().map(|t| sw(&t.s)).sum(); if wd > w { let e = bad.entry(format!("{ctx} overflow: overwide")).or_insert((0, format!("{h:?} @{w}: got={out:?}"))); e.0 += 1; break; } }
                    // tags: walk output lines, matching against source lines' nonspace chars; first piece of each source line must be Preformat(false), later pieces Preformat(true)
                    let mut li = 0usize; let mut consumed = 0usize; let srcns: Vec<String> = exp.iter().map(|l| l.chars().filter(|c| !c.is_whitespace()).collect()).collect(); let mut first_piece = true; let mut tag_ok = true; let mut why = String::new();
                    for l in &lines { let mut line_ns = 0usize; let mut tags: Vec<bool> = vec![]; for ts in l.tagged_strings() { let cnt = ts.s.chars().filter(|c| !c.is_whitespace()).count(); if pfx > 0 && ts.tag.is_empty() { continue; } for t in &ts.tag { if let RichAnnotation::Preformat(b) = t { if cnt > 0 { tags.push(*b); } } } line_ns += cnt; }
                        if line_ns == 0 { continue; }
                        while li < srcns.len() && consumed >= srcns[li].chars().count() { li += 1; consumed = 0; first_piece = true; }
                        if li >= srcns.len() { break; }
                        let want = !first_piece; if tags.iter().any(|&b| b != want) { tag_ok = false; why = format!("line {:?} want cont={want} tags={tags:?}", l.tagged_strings().map(|t| t.s.clone()).collect::<String>()); break; }
                        consumed += line_ns; first_piece = false; }
                    if !tag_ok { let e = bad.entry(format!("{ctx} overflow: preformat tag")).or_insert((0, format!("{h:?} @{w}: {why} got={out:?}"))); e.0 += 1; }
                }
            }
        }
    } }
    println!("C12 evaluations={n} fits={fits} bad classes={}", bad.len());
    for (k,(c,e)) in &bad { let ee: String = e.chars().take(500).collect(); println!("{c:7} {k}: {ee}"); }
}
