// Prototype: C13 whitespace-insensitivity; C07 compositionality
use html2text::config;
use probe::*;
use std::collections::BTreeMap;

// serialise with a rewrite: ws runs in text -> alt; insert `between` between block tags; wrap text in span optionally
fn ser_v(n: &N, out: &mut String, variant: usize, inline_ctx: bool) {
    match n {
        N::T(s) => { let mut prev_ws = false; let mut buf = String::new();
            for c in s.chars() { if c.is_whitespace() { if !prev_ws { buf.push_str(match variant { 1 => "\n\t ", 2 => "  ", 3 => " <!-- c -->", 4 => "<!--c--> ", _ => " " }); } prev_ws = true; } else { prev_ws = false; buf.push(c); } }
            if variant == 5 { out.push_str("<span>"); out.push_str(&buf); out.push_str("</span>"); } else { out.push_str(&buf); } }
        N::E(tag, attrs, kids) => {
            let blockish = ["p","div","ul","ol","li","blockquote","h3","dl","dt","dd"].contains(tag);
            out.push('<'); out.push_str(tag); for (k,v) in attrs { out.push_str(&format!(" {k}=\"{v}\"")); } out.push('>');
            if VOID.contains(tag) { return; }
            let container_only = ["ul","ol","dl"].contains(tag);
            if container_only && variant == 6 { out.push_str("\n  "); }
            for k in kids { ser_v(k, out, variant, !blockish); if container_only && variant == 6 { out.push_str("\n  "); } }
            out.push_str(&format!("</{tag}>"));
            if blockish && !inline_ctx && variant == 6 && ["p","ul","ol","blockquote","h3","dl","li","dt","dd"].contains(tag) { out.push_str("\n"); }
        }
    }
}
fn main() {
    std::panic::set_hook(Box::new(|_| {}));
    let depth: usize = std::env::args().nth(1).map(|s| s.parse().unwrap()).unwrap_or(2);
    let maxw = 14;
    let docs = block_docs(depth, false, false);
    let mut n = 0usize; let mut bad: BTreeMap<String,(usize,String)> = BTreeMap::new();
    for d in &docs {
        let h0 = html(d);
        for variant in 1..=6 { let mut hv = String::new(); for x in d { ser_v(x, &mut hv, variant, false); }
            if hv == h0 { continue; }
            for w in 1..=maxw { for cfg in 0..2 { n += 1;
                let run = |h: &str| { let hh = h.to_string(); std::panic::catch_unwind(move || if cfg == 0 { config::plain().string_from_read(hh.as_bytes(), w) } else { config::rich().string_from_read(hh.as_bytes(), w) }).map_err(|_| "PANIC").map(|r| r.map_err(|e| format!("{e:?}"))) };
                let a = run(&h0); let b = run(&hv);
                if a != b { let e = bad.entry(format!("variant{variant}")).or_insert((0, format!("{h0:?} vs {hv:?} @{w}:\n{a:?}\n{b:?}"))); e.0 += 1; }
            } }
        }
    }
    println!("C13 evaluations={n} bad classes={}", bad.len());
    for (k,(c,e)) in &bad { println!("{c:7} {k}: {e}"); }
}
