// Prototype: C15 option relations
use html2text::config::{self, Config};
use html2text::render::PlainDecorator;
use probe::*;
use std::collections::BTreeMap;
fn has(ns: &[N], tags: &[&str]) -> bool { ns.iter().any(|n| if let N::E(t,_,k) = n { tags.contains(t) || has(k, tags) } else { false }) }
type R = Result<Result<String,String>,&'static str>;
fn run(h: &str, w: usize, f: fn(Config<PlainDecorator>) -> Config<PlainDecorator>) -> R { let hh = h.to_string(); std::panic::catch_unwind(move || f(config::plain()).string_from_read(hh.as_bytes(), w)).map_err(|_| "PANIC").map(|r| r.map_err(|e| format!("{e:?}"))) }
fn main() {
    std::panic::set_hook(Box::new(|_| {}));
    let depth: usize = std::env::args().nth(1).map(|s| s.parse().unwrap()).unwrap_or(2);
    let docs = block_docs(depth, true, true);
    let mut n=0usize; let mut bad: BTreeMap<String,(usize,String)> = BTreeMap::new();
    macro_rules! fail { ($k:expr, $($a:tt)*) => { { let e = bad.entry($k.to_string()).or_insert((0, format!($($a)*))); e.0 += 1; } } }
    for d in &docs { let h = html(d); let tf = !has(d, &["table"]); let lf = !has(d, &["a"]); let sf = !has(d, &["del"]);
        for w in 1..=14usize { n += 1;
            let base = run(&h, w, |c| c);
            // pad
            let pad = run(&h, w, |c| c.pad_block_width());
            match (&base, &pad) { (Ok(Ok(a)), Ok(Ok(b))) => { let la: Vec<&str> = a.lines().map(|l| l.trim_end()).collect(); let lb: Vec<&str> = b.lines().map(|l| l.trim_end()).collect(); if la != lb { fail!("pad: rstrip differs", "{h} @{w}\n{a}\n{b}"); } if b.lines().any(|l| sw(l) > w) { fail!("pad: overwide", "{h} @{w}\n{b}"); } }
                (Ok(Err(_)), Ok(Err(_))) => {}, _ => fail!("pad: result kind", "{h} @{w} {base:?} {pad:?}") }
            // strikeout
            let st = run(&h, w, |c| c.unicode_strikeout(false));
            match (&base, &st) { (Ok(Ok(a)), Ok(Ok(b))) => { if &a.replace('\u{336}', "") != b { fail!("strike: differs", "{h} @{w}\n{a}\n{b}"); } if sf && a != b { fail!("strike: not noop", "{h} @{w}"); } } (Ok(Err(_)), Ok(Err(_))) => {}, _ => fail!("strike: result kind", "{h} @{w}") }
            // maxwrap >= w noop
            let mw = run(&h, w, |c| c.max_wrap_width(14)); if mw != base { fail!("maxwrap>=w not noop", "{h} @{w} {base:?} {mw:?}"); }
            let mw2 = run(&h, w, |c| c.max_wrap_width(usize::MAX)); if mw2 != base { fail!("maxwrap MAX not noop", "{h} @{w}"); }
            // no borders / raw: no box chars
            for (nm, f) in [("noborders", (|c| c.no_table_borders()) as fn(Config<PlainDecorator>) -> Config<PlainDecorator>), ("raw", |c| c.raw_mode(true))] {
                let r = run(&h, w, f); if let Ok(Ok(s)) = &r { if s.chars().any(|c| "─┬┴┼│/".contains(c) && c != '/') { fail!(format!("{nm}: box chars"), "{h} @{w}\n{s}"); } }
                if tf && r != base { fail!(format!("{nm}: not noop on table-free"), "{h} @{w} {base:?} {r:?}"); }
                if r.is_err() { fail!(format!("{nm}: PANIC"), "{h} @{w}"); } }
            // footnotes off
            let fo = run(&h, w, |c| c.link_footnotes(false));
            if lf && fo != base { fail!("footnotes(false): not noop on link-free", "{h} @{w}"); }
            if let Ok(Ok(s)) = &fo { if s.contains("[1]") { fail!("footnotes(false): ref present", "{h} @{w}\n{s}"); } }
            let big = 500; let (b1, b2) = (run(&h, big, |c| c), run(&h, big, |c| c.link_footnotes(false)));
            if w == 1 { if let (Ok(Ok(a)), Ok(Ok(b))) = (&b1, &b2) { let mut a2 = a.replace("[1]: /1\n", "").replace("[2]: /1\n","").replace("[3]: /1\n","").replace("[4]: /1\n",""); for k in 1..=4 { a2 = a2.replace(&format!("][{k}]"), "]"); } let a2 = a2.trim_end_matches('\n').to_string() + "\n"; let a2 = if a2 == "\n" { String::new() } else { a2 };
                let strip = |s: &str| s.lines().map(|l| l.trim_end().to_string()).collect::<Vec<_>>(); if strip(&a2) != strip(b) { fail!("footnotes(false): big-width deletion relation", "{h}\n{a}\n---\n{b}"); } } }
            // nolinkwrap
            let nl = run(&h, w, |c| c.no_link_wrapping()); if lf && nl != base { fail!("nolinkwrap: not noop on link-free", "{h} @{w}"); }
            // minwrap on table-free: both ok => equal
            let mn = run(&h, w, |c| c.min_wrap_width(1)); if tf { if let (Ok(Ok(a)), Ok(Ok(b))) = (&base, &mn) { if a != b { fail!("minwrap: changes ok output (table-free)", "{h} @{w}\n{a}\n{b}"); } } }
        }
    }
    println!("C15 docs*widths={n} bad classes={}", bad.len());
    for (k,(c,e)) in &bad { let ee: String = e.chars().take(500).collect(); println!("{c:7} {k}: {ee}"); }
}
