// Prototype: C09 annotations mirror nesting
use html2text::config;
use html2text::render::{RichAnnotation as RA, TaggedLineElement};
use html2text::Colour;
use probe::*;
use std::collections::BTreeMap;
fn col(s: &str) -> Colour { let v = u32::from_str_radix(&s[1..], 16).unwrap(); Colour { r: (v>>16) as u8, g: (v>>8) as u8, b: v as u8 } }
// expected annotation vector per token letter
fn walk(ns: &[N], stack: &mut Vec<RA>, pre: bool, out: &mut BTreeMap<char, Vec<RA>>) {
    for n in ns { match n {
        N::T(s) => { for c in s.chars().filter(|c| is_tok(*c)) { let mut v = stack.clone(); if pre { v.push(RA::Preformat(false)); } out.insert(c, v); } }
        N::E(tag, attrs, kids) => { let before = stack.len();
            for (k,v) in attrs { if *k == "style" { if let Some(c) = v.strip_prefix("color:") { stack.push(RA::Colour(col(c))); } if let Some(c) = v.strip_prefix("background-color:") { stack.push(RA::BgColour(col(c))); } } }
            let mut p = pre;
            match *tag { "em"|"i"|"dt" => stack.push(RA::Emphasis), "strong" => stack.push(RA::Strong), "del"|"s" => stack.push(RA::Strikeout), "code" => stack.push(RA::Code), "pre" => p = true,
                "a" => { if let Some((_,h)) = attrs.iter().find(|(k,_)| *k=="href") { stack.push(RA::Link(h.clone())); } }
                "img" => { let src = attrs.iter().find(|(k,_)| *k=="src").unwrap().1.clone(); let alt = attrs.iter().find(|(k,_)| *k=="alt").unwrap().1.clone(); let mut v = stack.clone(); v.push(RA::Image(src)); if p { v.push(RA::Preformat(false)); } for c in alt.chars() { out.insert(c, v.clone()); } }
                _ => {} }
            walk(kids, stack, p, out); stack.truncate(before); } } }
}
fn main() {
    std::panic::set_hook(Box::new(|_| {}));
    let wrap = |tag: &'static str, style: Option<&str>, kids: Vec<N>| -> N { let mut a = vec![]; if tag == "a" { a.push(("href", "/1".to_string())); } if let Some(s) = style { a.push(("style", s.to_string())); } ea(tag, a, kids) };
    let inl: Vec<(&'static str, Option<&'static str>)> = vec![("em",None),("strong",None),("del",None),("code",None),("a",None),("span",None),("span",Some("color:#010203")),("em",Some("background-color:#040506")),("i",None)];
    // inline runs: x <W1>y <W2>z</W2> u</W1> v  plus image
    let mut runs: Vec<Vec<N>> = vec![];
    for (t1,s1) in &inl { for (t2,s2) in &inl { if *t1=="a" && *t2=="a" { continue; }
        runs.push(vec![t("aa "), wrap(t1, *s1, vec![t("bbb "), wrap(t2, *s2, vec![t("cc")]), t(" d")]), t(" eeee")]);
        runs.push(vec![wrap(t1, *s1, vec![wrap(t2, *s2, vec![t("ffffff")]), ea("img", vec![("src","/s".into()),("alt","g".into())], vec![])]), t("h")]);
    } }
    let ctxs: Vec<Box<dyn Fn(Vec<N>) -> Vec<N>>> = vec![
        Box::new(|r| vec![e("p", r)]), Box::new(|r| vec![e("ul", vec![e("li", r)])]), Box::new(|r| vec![e("blockquote", r)]), Box::new(|r| vec![e("h2", r)]),
        Box::new(|r| vec![e("table", vec![e("tr", vec![e("td", r), e("td", vec![t("z")])])])]), Box::new(|r| vec![e("dl", vec![e("dt", r.clone()), e("dd", vec![t("z")])])]), Box::new(|r| vec![e("dl", vec![e("dd", r)])]), Box::new(|r| vec![e("pre", r)]),
        Box::new(|r| vec![ea("div", vec![("style","color:#0a0b0c".into())], vec![e("p", r)]), e("p", vec![t("z")])]),
        Box::new(|r| vec![ea("table", vec![("style","color:#0a0b0c".into())], vec![e("tr", vec![ea("td", vec![("style","background-color:#0d0e0f".into())], r)])]), e("p", vec![t("z")])]),
        Box::new(|r| vec![e("del", vec![e("p", r)]), e("p", vec![t("z")])]),
    ];
    let mut n=0usize; let mut bad: BTreeMap<String,(usize,String)> = BTreeMap::new();
    for (ci, ctx) in ctxs.iter().enumerate() { for r in &runs { let d = ctx(r.clone()); let h = html(&d);
        let mut exp = BTreeMap::new(); walk(&d, &mut vec![], false, &mut exp);
        for w in 1..=24usize { n+=1; let hh = h.clone();
            let r = std::panic::catch_unwind(move || config::rich().use_doc_css().lines_from_read(hh.as_bytes(), w));
            let hh = h.clone(); let rs = std::panic::catch_unwind(move || config::rich().use_doc_css().string_from_read(hh.as_bytes(), w));
            let lines = match r { Ok(Ok(l)) => l, Ok(Err(_)) => continue, Err(_) => { let e = bad.entry(format!("ctx{ci} PANIC")).or_insert((0, format!("{h} @{w}"))); e.0+=1; continue; } };
            let joined: String = lines.iter().map(|l| l.tagged_strings().map(|t| t.s.as_str()).collect::<String>() + "\n").collect();
            if rs.as_ref().ok().and_then(|r| r.as_ref().ok()) != Some(&joined) { let e = bad.entry(format!("ctx{ci} lines!=string")).or_insert((0, format!("{h} @{w}"))); e.0+=1; }
            'outer: for l in &lines { for el in l.iter() { if let TaggedLineElement::Str(ts) = el { for c in ts.s.chars() { if let Some(x) = exp.get(&c) {
                let mut got = ts.tag.clone(); // normalise Preformat(true)->false for compare
                for g in got.iter_mut() { if *g == RA::Preformat(true) { *g = RA::Preformat(false); } }
                if &got != x { let mut g2 = got.clone(); g2.retain(|a| !matches!(a, RA::Preformat(_))); let mut x2 = x.clone(); x2.retain(|a| !matches!(a, RA::Preformat(_)));
                    let key = if g2 == x2 { format!("ctx{ci} preformat-position") } else { format!("ctx{ci} mismatch") };
                    let e = bad.entry(key).or_insert((0, format!("{h} @{w}: char {c:?} exp={x:?} got={:?}", ts.tag))); e.0+=1; break 'outer; } } } } } }
        } } }
    println!("C09 evaluations={n} bad classes={}", bad.len());
    for (k,(c,e)) in &bad { let ee: String = e.chars().take(500).collect(); println!("{c:7} {k}: {ee}"); }
}
