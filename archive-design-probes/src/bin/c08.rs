// Prototype: C08 footnote numbering; C10 route agreement/histories
use html2text::config;
use probe::*;
use std::collections::BTreeMap;
fn links(ns: &[N], out: &mut Vec<(String, String, bool)>) { for n in ns { if let N::E(tag, attrs, kids) = n { if *tag == "a" { let href = attrs.iter().find(|(k,_)| *k=="href").map(|(_,v)| v.clone()).unwrap(); let mut f = String::new(); flow(kids, &mut f); let tok: String = f.chars().filter(|c| is_tok(*c)).collect(); let shallow_nonempty = kids.iter().any(|k| match k { N::T(s) => !s.trim().is_empty(), N::E(t,_,kk) => if *t=="img" { true } else if *t=="br" { false } else { !kk.is_empty() } }); out.push((href, tok, shallow_nonempty)); } links(kids, out); } } }
fn main() {
    std::panic::set_hook(Box::new(|_| {}));
    let mk = |h: &str, kids: Vec<N>| ea("a", vec![("href", h.to_string())], kids);
    // link atoms with unique letters assigned later
    let places: Vec<Box<dyn Fn(N) -> N>> = vec![
        Box::new(|l| e("p", vec![t("x "), l, t(" y")])), Box::new(|l| e("ul", vec![e("li", vec![l]), e("li", vec![t("z")])])), Box::new(|l| e("blockquote", vec![e("p", vec![l])])), Box::new(|l| e("h2", vec![l])),
        Box::new(|l| e("table", vec![e("tr", vec![e("td", vec![l]), e("td", vec![t("v")])])])), Box::new(|l| e("table", vec![e("tr", vec![e("td", vec![t("u")]), e("td", vec![e("table", vec![e("tr", vec![e("td", vec![l])])])])])])), Box::new(|l| e("dl", vec![e("dt", vec![l.clone()]), e("dd", vec![t("w")])])), Box::new(|l| e("pre", vec![l])),
    ];
    let contents: Vec<Box<dyn Fn(char) -> Vec<N>>> = vec![ Box::new(|c| vec![t(&c.to_string().repeat(2))]), Box::new(|c| vec![e("em", vec![t(&c.to_string())])]), Box::new(|c| vec![ea("img", vec![("src","/9".into()),("alt",c.to_string())], vec![])]), Box::new(|_| vec![]), Box::new(|_| vec![t(" ")]), Box::new(|_| vec![e("em", vec![e("em", vec![])])]) ];
    let hrefs = ["/1", "/2", "/1"];
    let mut n=0usize; let mut bad: BTreeMap<String,(usize,String)> = BTreeMap::new();
    let np = places.len(); let nc = contents.len();
    for k in 0..=3usize { let total = (np*nc).pow(k as u32); for code in 0..total { let mut c = code; let mut doc = vec![]; for i in 0..k { let pi = c % np; c /= np; let ci = c % nc; c /= nc; let letter = (b'a' + i as u8) as char; doc.push(places[pi](mk(hrefs[i], contents[ci](letter)))); }
        let h = html(&doc); let mut ls = vec![]; links(&doc, &mut ls);
        let has_table = h.contains("<table");
        for w in [10usize, 12, 20, 40] { for dec in 0..2 { for fnotes in [true,false] { n+=1; let hh = h.clone();
            let r = std::panic::catch_unwind(move || if dec == 0 { config::plain().link_footnotes(fnotes).string_from_read(hh.as_bytes(), w) } else { config::with_decorator(html2text::render::TrivialDecorator::new()).link_footnotes(fnotes).string_from_read(hh.as_bytes(), w) });
            let s = match r { Ok(Ok(s)) => s, Ok(Err(_)) => continue, Err(_) => { let e = bad.entry("PANIC".into()).or_insert((0, format!("{h} @{w}"))); e.0+=1; continue; } };
            // split footnote block: trailing lines matching ^\[\d+\]: 
            let lines: Vec<&str> = s.lines().collect(); let mut idx = lines.len(); while idx > 0 && { let l = lines[idx-1]; l.starts_with('[') && l.contains("]: ") } { idx -= 1; }
            let foot: Vec<&str> = lines[idx..].to_vec(); let body = lines[..idx].join("\n");
            let rendered: Vec<&(String,String,bool)> = ls.iter().filter(|l| l.2).collect();
            if !fnotes { if !foot.is_empty() || body.contains("[1]") { let e = bad.entry("disabled but present".into()).or_insert((0, format!("{h} @{w}\n{s}"))); e.0+=1; } continue; }
            let expfoot: Vec<String> = rendered.iter().enumerate().map(|(i,l)| format!("[{}]: {}", i+1, l.0)).collect();
            if foot != expfoot.iter().map(|s| s.as_str()).collect::<Vec<_>>() { let key = if rendered.iter().any(|l| l.1.is_empty()) { "footlist mismatch (deep-empty link)" } else { "footlist mismatch" }; let e = bad.entry(key.into()).or_insert((0, format!("{h} @{w}\nexp={expfoot:?}\n{s}"))); e.0+=1; continue; }
            // refs in order
            let filt: String = body.chars().filter(|c| is_tok(*c) || *c=='[' || *c==']' || c.is_ascii_digit()).collect();
            let mut refs = vec![]; let b = filt.as_bytes(); let mut i = 0; while i < b.len() { if b[i]==b'[' { let mut j=i+1; while j<b.len() && b[j].is_ascii_digit() { j+=1; } if j>i+1 && j<b.len() && b[j]==b']' { refs.push(filt[i+1..j].parse::<usize>().unwrap()); i=j; } } i+=1; }
            let mut sorted = refs.clone(); sorted.sort();
            let expn: Vec<usize> = (1..=rendered.len()).collect();
            if (has_table && sorted != expn) || (!has_table && refs != expn) { let e = bad.entry("refs mismatch".into()).or_insert((0, format!("{h} @{w}\nrefs={refs:?}\n{s}"))); e.0+=1; }
        } } }
    } }
    println!("C08 evaluations={n} bad classes={}", bad.len());
    for (k,(c,e)) in &bad { let ee: String = e.chars().take(500).collect(); println!("{c:7} {k}: {ee}"); }
}
