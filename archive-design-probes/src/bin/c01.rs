// Prototype: C01 totality sweep (token soup + numeric attrs), in-process catch_unwind only
use html2text::config::{self, Config};
use html2text::render::TextDecorator;
use std::collections::BTreeMap;
use std::sync::Mutex;
static LAST: Mutex<String> = Mutex::new(String::new());
fn opts<D: TextDecorator>(c: Config<D>, o: usize) -> Config<D> { match o { 0 => c, 1 => c.allow_width_overflow(), 2 => c.pad_block_width(), 3 => c.raw_mode(true), 4 => c.no_table_borders(), 5 => c.no_link_wrapping(), 6 => c.link_footnotes(true), 7 => c.unicode_strikeout(false), 8 => c.do_decorate(), 9 => c.use_doc_css(), 10 => c.max_wrap_width(1), 11 => c.max_wrap_width(5), 12 => c.min_wrap_width(0), 13 => c.min_wrap_width(10), 14 => c.add_css("p{color:#f00;} .a{display:none;} td{background-color:#00f;}").unwrap(), _ => c } }
fn main() {
    std::panic::set_hook(Box::new(|i| { *LAST.lock().unwrap() = format!("{}", i.location().map(|l| format!("{}:{}", l.file().rsplit('/').next().unwrap(), l.line())).unwrap_or_default()); }));
    let mode = std::env::args().nth(1).unwrap_or("soup".into());
    let toks: Vec<&str> = vec!["<p>","</p>","<div>","</div>","<ul>","</ul>","<ol start=-3>","</ol>","<li>","</li>","<blockquote>","</blockquote>","<h1>","</h1>","<pre>","</pre>","<table>","</table>","<tr>","</tr>","<td>","</td>","<td colspan=3>","<th colspan=0>","<thead>","<tbody>","<dl>","</dl>","<dt>","<dd>","<a href=\"/u\">","<a name=n>","</a>","<em>","</em>","<strong>","<del>","</del>","<code>","<sup>","</sup>","<span id=i class=a>","</span>","<br>","<hr>","<img src=s alt=al>","<img>","x"," ","ab cd","中","e\u{301}","\t","\n","7","&amp;","&#0;","\u{0}","\u{7f}","<!-- c -->","<!DOCTYPE html>","<![CDATA[x]]>","<style>p{color:red}</style>","<script>s</script>","<head>","<body>","<html>","<","<a","<svg>","<math>","<template>","<select>","<option>","<textarea>","<title>","<frameset>","<caption>","<tfoot>","<colgroup>","<font color=red>","<p style=\"display:none\">"];
    let widths = [0usize, 1, 2, 3, 5, 8, 9, 17, 40, 200, 100000, usize::MAX];
    let mut docs: Vec<String> = vec![];
    if mode == "soup" { let n = toks.len(); let depth: u32 = std::env::args().nth(2).map(|s| s.parse().unwrap()).unwrap_or(2); for k in 1..=depth { for code in 0..n.pow(k) { let mut c = code; let mut s = String::new(); for _ in 0..k { s.push_str(toks[c % n]); c /= n; } docs.push(s); } } }
    else { let vals = ["-9223372036854775808","-1","0","1","2","3","1000","2147483648","9223372036854775806","9223372036854775807","18446744073709551615","18446744073709551616","1000000000000000000000000000000","","x","1e9","+5"," 7"];
        for a in vals { for b in vals.iter().take(8) { for shape in 0..5 { docs.push(match shape { 0 => format!("<table><tr><td colspan=\"{a}\">x<td colspan=\"{b}\">y</table>"), 1 => format!("<table><tr><td colspan=\"{a}\">x<td>z<tr><td>w<td colspan=\"{b}\">y</table>"), 2 => format!("<ol start=\"{a}\"><li>x</ol>"), 3 => format!("<ol start=\"{a}\"><li>x<li>y<li>z</ol>"), _ => format!("<table><tr><th colspan=\"{a}\"><td colspan=\"{b}\">y<tr><td>q</table>") }); } } } }
    eprintln!("{} docs", docs.len());
    let mut n=0usize; let mut bad: BTreeMap<String,(usize,String)> = BTreeMap::new();
    for d in &docs { for &w in &widths { for o in 0..15 { for dec in 0..3 { if o == 2 && w > 100000 { continue; } n+=1; let dd = d.clone();
        let t0 = std::time::Instant::now();
        let r = std::panic::catch_unwind(move || match dec { 0 => opts(config::plain(), o).string_from_read(dd.as_bytes(), w).map(|_| ()), 1 => opts(config::rich(), o).lines_from_read(dd.as_bytes(), w).map(|_| ()), _ => opts(config::with_decorator(html2text::render::TrivialDecorator::new()), o).string_from_read(dd.as_bytes(), w).map(|_| ()) });
        if t0.elapsed().as_secs() >= 2 { let e = bad.entry("SLOW".into()).or_insert((0, format!("{d:?} @{w} o={o}"))); e.0+=1; }
        match r { Ok(Ok(())) | Ok(Err(html2text::Error::TooNarrow)) => {}, Ok(Err(e)) => { let en = bad.entry(format!("ERR {e:?}")).or_insert((0, format!("{d:?} @{w} o={o} dec={dec}"))); en.0+=1; }, Err(_) => { let loc = LAST.lock().unwrap().clone(); let en = bad.entry(format!("PANIC {loc}")).or_insert((0, format!("{d:?} @{w} o={o} dec={dec}"))); en.0+=1; } }
    } } } }
    println!("C01 {mode} evaluations={n} bad classes={}", bad.len());
    for (k,(c,e)) in &bad { println!("{c:7} {k}: {e}"); }
}
