// Prototype: C16 custom decorators
use html2text::config;
use html2text::render::{TextDecorator, TaggedLine};
use probe::*;
use std::collections::BTreeMap;
#[derive(Clone, Debug)] struct Dec { p: [String; 8] } // 0 link_open 1 link_close 2 em 3 strong 4 quote 5 ul 6 ol_sep 7 header
impl TextDecorator for Dec { type Annotation = ();
    fn decorate_link_start(&mut self, _u: &str) -> (String, ()) { (self.p[0].clone(), ()) } fn decorate_link_end(&mut self) -> String { self.p[1].clone() }
    fn decorate_em_start(&self) -> (String, ()) { (self.p[2].clone(), ()) } fn decorate_em_end(&self) -> String { self.p[2].clone() }
    fn decorate_strong_start(&self) -> (String, ()) { (self.p[3].clone(), ()) } fn decorate_strong_end(&self) -> String { self.p[3].clone() }
    fn decorate_strikeout_start(&self) -> (String, ()) { ("".into(), ()) } fn decorate_strikeout_end(&self) -> String { "".into() }
    fn decorate_code_start(&self) -> (String, ()) { ("`".into(), ()) } fn decorate_code_end(&self) -> String { "`".into() }
    fn decorate_preformat_first(&self) {} fn decorate_preformat_cont(&self) {}
    fn decorate_image(&mut self, _s: &str, t: &str) -> (String, ()) { (format!("[{t}]"), ()) }
    fn header_prefix(&self, level: usize) -> String { self.p[7].repeat(level) + " " } fn quote_prefix(&self) -> String { self.p[4].clone() } fn unordered_item_prefix(&self) -> String { self.p[5].clone() }
    fn ordered_item_prefix(&self, i: i64) -> String { format!("{i}{} ", self.p[6]) } fn make_subblock_decorator(&self) -> Self { self.clone() }
    fn finalise(&mut self, _l: Vec<String>) -> Vec<TaggedLine<()>> { vec![] } }
fn main() {
    std::panic::set_hook(Box::new(|_| {}));
    let base: [&str; 8] = ["[", "]", "*", "**", "> ", "* ", ".", "#"];
    let alts = ["", "§", "• ", "│ ", "）", "〖"];
    let docs = block_docs(1, false, true);
    let mut n=0usize; let mut bad: BTreeMap<String,(usize,String)> = BTreeMap::new();
    for pi in 0..8 { for alt in alts { let mut p: [String;8] = base.map(|s| s.to_string()); p[pi] = alt.to_string(); let dec = Dec{p: p.clone()};
        for d in &docs { let h = html(d); for w in 4..=20usize { n+=1; let hh = h.clone(); let dd = dec.clone();
            let r = std::panic::catch_unwind(move || config::with_decorator(dd).string_from_read(hh.as_bytes(), w));
            match r { Err(_) => { let e = bad.entry(format!("param{pi}={alt:?} PANIC")).or_insert((0, format!("{h} @{w}"))); e.0+=1; }
                Ok(Err(_)) => {}
                Ok(Ok(s)) => { if let Some(l) = s.lines().find(|l| sw(l) > w) { let e = bad.entry(format!("param{pi}={alt:?} overwide")).or_insert((0, format!("{h} @{w}: {l:?}"))); e.0+=1; }
                    // conservation of tokens
                    let mut v = String::new(); flow(d, &mut v); let vt: String = v.chars().filter(|c| is_tok(*c)).collect(); let gt: String = s.chars().filter(|c| is_tok(*c)).collect(); if vt != gt { let e = bad.entry(format!("param{pi}={alt:?} text")).or_insert((0, format!("{h} @{w}\n{s}"))); e.0+=1; } } }
        } } } }
    println!("C16 evaluations={n} bad classes={}", bad.len());
    for (k,(c,e)) in &bad { let ee: String = e.chars().take(200).collect(); println!("{c:7} {k}: {ee}"); }
}
