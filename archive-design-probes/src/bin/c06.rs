// Prototype: C06 cells stay in their columns
use html2text::config;
use probe::*;
use std::collections::BTreeMap;
fn grid(line: &str) -> Vec<char> { let mut v = vec![]; for c in line.chars() { let w = cw(c); if w == 0 { continue; } v.push(c); for _ in 1..w { v.push('\u{0}'); } } v }
fn is_rule_glyph(c: char) -> bool { matches!(c, '─'|'┬'|'┴'|'┼') }
fn compositions(n: usize) -> Vec<Vec<usize>> { if n == 0 { return vec![vec![]]; } let mut out = vec![]; for first in 1..=n { for mut rest in compositions(n-first) { let mut v = vec![first]; v.append(&mut rest); out.push(v); } } out }
struct Cell { row: usize, col: usize, span: usize, letter: Option<char> }
fn check(lines: &[String], cells: &[Cell], nrows: usize) -> Result<&'static str, String> {
    let g: Vec<Vec<char>> = lines.iter().map(|l| grid(l)).collect();
    let pure_rule = |r: &Vec<char>| !r.is_empty() && r.iter().all(|&c| is_rule_glyph(c));
    if g.iter().any(|r| !r.is_empty() && r.iter().all(|&c| c == '/')) || !g.iter().any(|r| r.contains(&'│')) && cells.iter().filter(|c| c.row == 0).count() > 1 && false { return Ok("stacked"); }
    // every non-empty cell letter appears
    let all: String = lines.concat();
    for c in cells { if let Some(l) = c.letter { if !all.contains(l) { return Err(format!("cell ({},{}) token {l} missing", c.row, c.col)); } } }
    // bands
    let mut bands: Vec<(usize,usize)> = vec![]; let mut y = 0; while y < g.len() { if pure_rule(&g[y]) { let mut y2 = y+1; while y2 < g.len() && !pure_rule(&g[y2]) { y2 += 1; } if y2 > y+1 { bands.push((y+1, y2)); } y = y2; } else { y += 1; } }
    // map each letter to (band index, segment index, xmin, xmax)
    let mut loc: BTreeMap<char, (usize, usize, usize, usize)> = BTreeMap::new(); // letter -> band, seg, left bar x (or 0), right bar x (or width)
    for (bi, &(y0,y1)) in bands.iter().enumerate() { let bars: Vec<usize> = (0..g[y0].len()).filter(|&x| g[y0][x]=='│').collect();
        for yy in y0..y1 { for (x,&ch) in g[yy].iter().enumerate() { if ch.is_ascii_lowercase() { let seg = bars.iter().filter(|&&b| b < x).count(); let left = if seg == 0 { 0 } else { bars[seg-1]+1 }; let right = if seg < bars.len() { bars[seg] } else { g[yy].len() };
            if let Some(prev) = loc.get(&ch) { if (prev.0, prev.1) != (bi, seg) { return Err(format!("token {ch} in two places {prev:?} vs ({bi},{seg})")); } } loc.insert(ch, (bi, seg, left, right)); } } } }
    // tokens outside bands?
    let in_bands: usize = loc.len(); let expected = cells.iter().filter(|c| c.letter.is_some()).count(); if in_bands != expected { return Err(format!("{} tokens located in bands, expected {}", in_bands, expected)); }
    // (1) one cell per segment (2) order
    let mut seen: BTreeMap<(usize,usize), char> = BTreeMap::new();
    for (&l, &(b,s,_,_)) in &loc { if let Some(o) = seen.insert((b,s), l) { return Err(format!("segment ({b},{s}) holds tokens of two cells {o},{l}")); } }
    let mut last_band = None; 
    for r in 0..nrows { let mut last_seg: Option<usize> = None; let mut band_of_row = None; for c in cells.iter().filter(|c| c.row == r) { if let Some(l) = c.letter { let (b,s,_,_) = loc[&l]; if let Some(br) = band_of_row { if br != b { return Err(format!("row {r} spread over bands {br},{b}")); } } band_of_row = Some(b); if let Some(ls) = last_seg { if s <= ls { return Err(format!("row {r}: cell order broken")); } } last_seg = Some(s); } }
        if let Some(b) = band_of_row { if let Some(lb) = last_band { if b <= lb { return Err(format!("row order broken at row {r}")); } } last_band = Some(b); } }
    // (3) column boundaries agree across rows
    let mut left_of: BTreeMap<usize, (usize,char)> = BTreeMap::new(); let mut right_of: BTreeMap<usize, (usize,char)> = BTreeMap::new();
    for c in cells { if let Some(l) = c.letter { let (_,_,lx,rx) = loc[&l]; if let Some(&(x,o)) = left_of.get(&c.col) { if x != lx { return Err(format!("left boundary of column {} differs: {o}@{x} vs {l}@{lx}", c.col)); } } left_of.insert(c.col, (lx,l)); let rc = c.col + c.span; if let Some(&(x,o)) = right_of.get(&rc) { if x != rx { return Err(format!("right boundary of column {} differs: {o}@{x} vs {l}@{rx}", rc)); } } right_of.insert(rc, (rx,l)); } }
    Ok("sbs")
}
fn main() {
    std::panic::set_hook(Box::new(|_| {}));
    let maxw: usize = std::env::args().nth(1).map(|s| s.parse().unwrap()).unwrap_or(20);
    // contents with placeholder X replaced by the cell letter
    let contents: Vec<&str> = vec!["", "X", "XX XX XX", "X<br>X", "XXXXXX"];
    let mut n=0usize; let mut stats: BTreeMap<String,usize> = BTreeMap::new(); let mut bad: BTreeMap<String,(usize,String)> = BTreeMap::new();
    for ncols in 1..=3usize { let comps = compositions(ncols); for nrows in 1..=2usize { let ntil = comps.len().pow(nrows as u32);
        for tcode in 0..ntil { let mut tc = tcode; let tilings: Vec<&Vec<usize>> = (0..nrows).map(|_| { let t = &comps[tc % comps.len()]; tc /= comps.len(); t }).collect();
            let ncells: usize = tilings.iter().map(|t| t.len()).sum(); let ncont = contents.len().pow(ncells as u32);
            for ccode in 0..ncont { let mut cc = ccode; let mut html = String::from("<table>"); let mut cells = vec![]; let mut letter = b'a';
                for (r,t) in tilings.iter().enumerate() { html.push_str("<tr>"); let mut col = 0; for &span in t.iter() { let c = contents[cc % contents.len()]; cc /= contents.len(); let l = letter as char; letter += 1; let body = c.replace('X', &l.to_string()); if span > 1 { html.push_str(&format!("<td colspan={span}>{body}</td>")); } else { html.push_str(&format!("<td>{body}</td>")); } cells.push(Cell{row:r, col, span, letter: if c.is_empty() { None } else { Some(l) }}); col += span; } html.push_str("</tr>"); }
                html.push_str("</table>");
                for w in 1..=maxw { n += 1; let h = html.clone();
                    match std::panic::catch_unwind(move || config::plain().string_from_read(h.as_bytes(), w)) { Err(_) => { let e = bad.entry("PANIC".into()).or_insert((0, format!("{html} @{w}"))); e.0 += 1; } Ok(Err(_)) => { *stats.entry("toonarrow".into()).or_default() += 1; }
                        Ok(Ok(s)) => { let lines: Vec<String> = s.lines().map(|l| l.to_string()).collect(); match check(&lines, &cells, nrows) { Ok(k) => { *stats.entry(k.into()).or_default() += 1; }, Err(m) => { let key: String = m.chars().filter(|c| !c.is_ascii_digit() && !c.is_ascii_lowercase() || "tokenmissingcellrowsegmentboundarydifferslefrightcolumn".contains(*c)).take(40).collect(); let e = bad.entry(key).or_insert((0, format!("{html} @{w}: {m}\n{s}"))); e.0 += 1; } } } } }
            } } } }
    println!("C06 evaluations={n} stats={stats:?} bad classes={}", bad.len());
    for (k,(c,e)) in &bad { println!("{c:7} {k}: {e}"); }
}
