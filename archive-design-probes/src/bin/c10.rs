// Prototype: C10 routes/histories
use html2text::config;
use probe::*;
use std::collections::BTreeMap;
fn main() {
    std::panic::set_hook(Box::new(|_| {}));
    let docs = block_docs(2, true, true);
    let ws = [0usize, 1, 3, 7, 20];
    let mut n=0usize; let mut bad: BTreeMap<String,(usize,String)> = BTreeMap::new();
    for d in &docs { let h = html(d);
        let fresh: Vec<Result<String,String>> = ws.iter().map(|&w| config::rich().string_from_read(h.as_bytes(), w).map_err(|e| format!("{e:?}"))).collect();
        for (i,&w) in ws.iter().enumerate() { n+=1;
            let l = config::rich().lines_from_read(h.as_bytes(), w).map(|ls| ls.iter().map(|l| l.tagged_strings().map(|t| t.s.as_str()).collect::<String>() + "\n").collect::<String>()).map_err(|e| format!("{e:?}"));
            if l != fresh[i] { let e = bad.entry("lines".into()).or_insert((0, format!("{h} @{w}"))); e.0+=1; }
            let c = config::rich().coloured(h.as_bytes(), w, |_, s| s.to_string()).map_err(|e| format!("{e:?}")); if c != fresh[i] { let e = bad.entry("coloured".into()).or_insert((0, format!("{h} @{w}"))); e.0+=1; }
            let c2 = html2text::from_read_coloured(h.as_bytes(), w, |_, s| s.to_string()).map_err(|e| format!("{e:?}")); if c2 != fresh[i] { let e = bad.entry("from_read_coloured".into()).or_insert((0, format!("{h} @{w}"))); e.0+=1; }
            let p = config::plain().string_from_read(h.as_bytes(), w).map_err(|e| format!("{e:?}")); let p2 = html2text::from_read(h.as_bytes(), w).map_err(|e| format!("{e:?}")); if p != p2 { let e = bad.entry("from_read".into()).or_insert((0, format!("{h} @{w}"))); e.0+=1; }
        }
        // histories
        let cfg = config::rich(); let dom = cfg.parse_html(h.as_bytes()).unwrap(); let tree = cfg.dom_to_render_tree(&dom).unwrap();
        let k = ws.len();
        for code in 0..k*k*k { let seq = [code % k, (code / k) % k, code / (k*k)]; n+=1;
            let mut t = tree.clone();
            for (step, &wi) in seq.iter().enumerate() { let r = if step == 1 { cfg.render_to_lines(t.clone(), ws[wi]).map(|ls| ls.iter().map(|l| l.tagged_strings().map(|t| t.s.as_str()).collect::<String>() + "\n").collect::<String>()) } else { cfg.render_to_string(t.clone(), ws[wi]) }.map_err(|e| format!("{e:?}"));
                if r != fresh[wi] { let e = bad.entry("history".into()).or_insert((0, format!("{h} seq={seq:?} step={step}"))); e.0+=1; }
                if step == 0 { t = t.clone(); } }
            let r = cfg.render_to_string(t, ws[seq[0]]).map_err(|e| format!("{e:?}")); if r != fresh[seq[0]] { let e = bad.entry("history-final".into()).or_insert((0, format!("{h} seq={seq:?}"))); e.0+=1; }
        }
        // tree from html2text::parse rendered with plain config == ? (parse uses trivial config context; tree is config independent without css)
    }
    println!("C10 evaluations={n} bad classes={}", bad.len());
    for (k,(c,e)) in &bad { let ee: String = e.chars().take(300).collect(); println!("{c:7} {k}: {ee}"); }
}
