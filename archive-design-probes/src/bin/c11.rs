// Prototype: C11 overflow option
use html2text::config;
use probe::*;
use std::collections::BTreeMap;
fn maxprefix(ns: &[N]) -> usize { let mut best = 0; for n in ns { if let N::E(tag, attrs, kids) = n { let own = match *tag { "ul" | "blockquote" | "dd" => 2, "h3" => 4, "ol" => { let start: i64 = attrs.iter().find(|(k,_)| *k=="start").map(|(_,v)| v.parse().unwrap()).unwrap_or(1); let cnt = kids.len() as i64; format!("{}. ", start).len().max(format!("{}. ", start+cnt-1).len()) }, _ => 0 }; best = best.max(own + maxprefix(kids)); } } best }
fn has(ns: &[N], tags: &[&str]) -> bool { ns.iter().any(|n| if let N::E(t,_,k) = n { tags.contains(t) || has(k, tags) } else { false }) }
fn main() {
    std::panic::set_hook(Box::new(|_| {}));
    let depth: usize = std::env::args().nth(1).map(|s| s.parse().unwrap()).unwrap_or(2);
    let docs = block_docs(depth, true, true);
    let mut n=0usize; let mut bad: BTreeMap<String,(usize,String)> = BTreeMap::new(); let mut overflowed=0usize;
    for d in &docs { let h = html(d); let p = maxprefix(d); let tablefree = !has(d, &["table"]);
        for w in 0..=12usize { for mw in [3usize, 1, 6] { n+=1;
            let run = |ov: bool| { let hh = h.clone(); std::panic::catch_unwind(move || { let c = config::plain().min_wrap_width(mw); let c = if ov { c.allow_width_overflow() } else { c }; c.string_from_read(hh.as_bytes(), w) }).map_err(|_| "PANIC").map(|r| r.map_err(|e| format!("{e:?}"))) };
            let a = run(false); let b = run(true);
            if w == 0 { if a != Ok(Err("TooNarrow".into())) || b != Ok(Err("TooNarrow".into())) { let e = bad.entry("w0".into()).or_insert((0, format!("{h} {a:?} {b:?}"))); e.0+=1; } continue; }
            match &b { Ok(Ok(s)) => { if let Ok(Ok(sa)) = &a { if sa != s { let e = bad.entry("overflow-changes-ok-output".into()).or_insert((0, format!("{h} @{w} mw={mw}\n{sa}\n{s}"))); e.0+=1; } } else { overflowed += 1; }
                    if tablefree { let bound = w.max(p + mw.max(5)); for l in s.lines() { if sw(l) > bound { let e = bad.entry(format!("bound exceeded by {}", sw(l)-bound)).or_insert((0, format!("{h} @{w} mw={mw} P={p} bound={bound}: {l:?}"))); e.0+=1; break; } } } }
                _ => { let e = bad.entry("overflow-not-ok".into()).or_insert((0, format!("{h} @{w} mw={mw}: {b:?}"))); e.0+=1; } }
            if a.is_err() { let e = bad.entry("PANIC-nooverflow".into()).or_insert((0, format!("{h} @{w}"))); e.0+=1; }
        } }
    }
    println!("C11 evaluations={n} overflowed={overflowed} bad classes={}", bad.len());
    for (k,(c,e)) in &bad { let ee: String = e.chars().take(600).collect(); println!("{c:7} {k}: {ee}"); }
}
