// Prototype: table grid checks (C05/C06) on regular tables
use html2text::config;
use probe::*;
use std::collections::BTreeMap;

fn grid(line: &str) -> Vec<char> { let mut v = vec![]; for c in line.chars() { let w = cw(c); if w == 0 { continue; } v.push(c); for _ in 1..w { v.push('\u{0}'); } } v }
fn is_rule_glyph(c: char) -> bool { matches!(c, '─'|'┬'|'┴'|'┼') }
fn compositions(n: usize) -> Vec<Vec<usize>> { if n == 0 { return vec![vec![]]; } let mut out = vec![]; for first in 1..=n { for mut rest in compositions(n-first) { let mut v = vec![first]; v.append(&mut rest); out.push(v); } } out }

fn check(lines: &[String], w: usize) -> Result<&'static str, String> {
    if lines.is_empty() { return Ok("empty"); }
    let g: Vec<Vec<char>> = lines.iter().map(|l| grid(l)).collect();
    let pure_rule = |r: &Vec<char>| !r.is_empty() && r.iter().all(|&c| is_rule_glyph(c));
    let slash = |r: &Vec<char>| !r.is_empty() && r.iter().all(|&c| c == '/');
    // stacked form?
    let any_over = g.iter().any(|r| r.len() > w);
    if any_over { return Err("overwide".into()); }
    let stacked_ok = pure_rule(&g[0]) && pure_rule(g.last().unwrap()) && g.iter().all(|r| if pure_rule(r) { r.len() == w && r.iter().all(|&c| c=='─') } else if slash(r) { r.len() == w } else { !r.iter().any(|&c| is_rule_glyph(c) || c=='│') });
    if stacked_ok { return Ok("stacked"); }
    // side by side
    let wd = g[0].len();
    if !g.iter().all(|r| r.len() == wd) { return Err(format!("ragged")); }
    if !pure_rule(&g[0]) || !pure_rule(g.last().unwrap()) { return Err("first/last not rule".into()); }
    for y in 0..g.len() { for x in 0..wd { let c = g[y][x]; if is_rule_glyph(c) {
        let up = matches!(c, '┴'|'┼'); let down = matches!(c, '┬'|'┼');
        let above = y > 0 && g[y-1][x] == '│'; let below = y+1 < g.len() && g[y+1][x] == '│';
        if up != above || down != below { return Err(format!("junction at ({y},{x}) '{c}' above={above} below={below}")); }
    } } }
    // bars aligned per band
    let mut y = 0; while y < g.len() { if pure_rule(&g[y]) { let mut y2 = y+1; while y2 < g.len() && !pure_rule(&g[y2]) { y2 += 1; }
        if y2 > y+1 { let bars: Vec<usize> = (0..wd).filter(|&x| g[y+1][x]=='│').collect(); for yy in y+1..y2.min(g.len()) { let b2: Vec<usize> = (0..wd).filter(|&x| g[yy][x]=='│').collect(); if b2 != bars { return Err(format!("bars differ in band at line {yy}")); } } }
        else if y2 < g.len() { return Err("adjacent rules".into()); }
        y = y2; } else { y += 1; } }
    Ok("sbs")
}

fn main() {
    std::panic::set_hook(Box::new(|_| {}));
    let contents: Vec<&str> = vec!["", "a", "bb cc dd", "e<br>f", "中中 g"];
    let maxw: usize = std::env::args().nth(1).map(|s| s.parse().unwrap()).unwrap_or(20);
    let mut n=0usize; let mut stats: BTreeMap<String,usize> = BTreeMap::new(); let mut bad: BTreeMap<String,(usize,String)> = BTreeMap::new();
    for ncols in 1..=3usize { let comps = compositions(ncols);
      for nrows in 1..=2usize {
        // choose tiling per row
        let ntil = comps.len().pow(nrows as u32);
        for tcode in 0..ntil { let mut tc = tcode; let tilings: Vec<&Vec<usize>> = (0..nrows).map(|_| { let t = &comps[tc % comps.len()]; tc /= comps.len(); t }).collect();
            let ncells: usize = tilings.iter().map(|t| t.len()).sum();
            let ncont = contents.len().pow(ncells as u32);
            for ccode in 0..ncont { let mut cc = ccode; let mut html = String::from("<table>");
                for t in &tilings { html.push_str("<tr>"); for &span in t.iter() { let c = contents[cc % contents.len()]; cc /= contents.len(); if span > 1 { html.push_str(&format!("<td colspan={span}>{c}</td>")); } else { html.push_str(&format!("<td>{c}</td>")); } } html.push_str("</tr>"); }
                html.push_str("</table>");
                for w in 1..=maxw { n += 1; let h = html.clone();
                    match std::panic::catch_unwind(move || config::plain().string_from_read(h.as_bytes(), w)) {
                        Err(_) => { let e = bad.entry("PANIC".into()).or_insert((0, format!("{html} @{w}"))); e.0 += 1; }
                        Ok(Err(_)) => { *stats.entry("toonarrow".into()).or_default() += 1; }
                        Ok(Ok(s)) => { let lines: Vec<String> = s.lines().map(|l| l.to_string()).collect();
                            match check(&lines, w) { Ok(k) => { *stats.entry(k.into()).or_default() += 1; }, Err(m) => { let key = m.split(" at ").next().unwrap().to_string(); let e = bad.entry(key).or_insert((0, format!("{html} @{w}: {m}\n{s}"))); e.0 += 1; } } }
                    } }
            } } } }
    println!("evaluations={n} stats={stats:?} bad classes={}", bad.len());
    for (k,(c,e)) in &bad { println!("{c:7} {k}: {e}"); }
}
