// Prototype: text conservation (C03) and C13 whitespace-insensitivity on table-free docs
use html2text::config;
use probe::*;
use std::collections::BTreeMap;
fn main() {
    std::panic::set_hook(Box::new(|_| {}));
    let depth: usize = std::env::args().nth(1).map(|s| s.parse().unwrap()).unwrap_or(2);
    let tables: bool = std::env::args().nth(2).map(|s| s=="t").unwrap_or(false);
    let maxw = 14;
    let docs = block_docs(depth, tables, true);
    eprintln!("{} docs", docs.len());
    let mut n = 0usize; let mut bad: BTreeMap<String,(usize,String)> = BTreeMap::new();
    for d in &docs {
        let h = html(d);
        let mut v = String::new(); flow(d, &mut v); let vtok: String = v.chars().filter(|&c| is_tok(c)).collect();
        let mut vs: Vec<char> = vtok.chars().collect(); vs.sort();
        for w in 1..=maxw { for cfg in 0..4 { n += 1; let hh = h.clone();
            let r = std::panic::catch_unwind(move || match cfg { 0 => config::plain().string_from_read(hh.as_bytes(), w), 1 => config::rich().string_from_read(hh.as_bytes(), w), 2 => config::with_decorator(html2text::render::TrivialDecorator::new()).string_from_read(hh.as_bytes(), w), _ => config::plain().raw_mode(true).string_from_read(hh.as_bytes(), w) });
            match r { Err(_) => { let e = bad.entry("PANIC".into()).or_insert((0, format!("{h} @{w}"))); e.0+=1; }
              Ok(Err(_)) => {}
              Ok(Ok(s)) => {
                // strip footnote block for plain: lines starting with "[n]: "
                let body: String = s.lines().filter(|l| !(l.starts_with('[') && l.contains("]: "))).collect::<Vec<_>>().join("\n");
                let got: String = body.chars().filter(|&c| is_tok(c)).collect();
                let ok = if !tables || cfg == 3 { got == vtok } else { let mut g: Vec<char> = got.chars().collect(); g.sort(); g == vs };
                if !ok { let e = bad.entry(format!("cfg{cfg}")).or_insert((0, format!("{h} @{w}: exp={vtok:?} got={got:?}\n{s}"))); e.0 += 1; }
                if cfg == 2 { // trivial: nothing but text, ws, borders
                    let extra: String = s.chars().filter(|&c| !c.is_whitespace() && !is_tok(c) && !"─┬┴┼│/".contains(c)).collect();
                    let vextra: String = v.chars().filter(|&c| !c.is_whitespace() && !is_tok(c)).collect();
                    if extra != vextra { let e = bad.entry("trivial-extra".into()).or_insert((0, format!("{h} @{w}: extra={extra:?}\n{s}"))); e.0 += 1; }
                }
              } }
        } }
    }
    println!("evaluations={n} bad classes={}", bad.len());
    for (k,(c,e)) in &bad { println!("{c:7} {k}: {e}"); }
}
