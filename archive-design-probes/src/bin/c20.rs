// Prototype: C20 selector matching vs reference
use html2text::config;
use html2text::render::RichAnnotation;
use probe::*;
use std::collections::{BTreeMap, BTreeSet};
#[derive(Clone, Debug)] enum Simple { Tag(&'static str), Class(&'static str), Id(&'static str), Star, Nth(i32,i32) }
#[derive(Clone, Debug)] enum Comb { Desc, Child }
#[derive(Clone, Debug)] struct Sel { first: Vec<Simple>, rest: Vec<(Comb, Vec<Simple>)> }
fn simple_str(s: &Simple) -> String { match s { Simple::Tag(t) => t.to_string(), Simple::Class(c) => format!(".{c}"), Simple::Id(i) => format!("#{i}"), Simple::Star => "*".into(), Simple::Nth(a,b) => format!(":nth-child({a}n{}{b})", if *b >= 0 {"+"} else {""}) } }
fn comp_str(c: &[Simple]) -> String { c.iter().map(simple_str).collect() }
fn sel_str(s: &Sel) -> String { let mut o = comp_str(&s.first); for (c, comp) in &s.rest { o += match c { Comb::Desc => " ", Comb::Child => " > " }; o += &comp_str(comp); } o }
// flat element table from AST (under html>body)
struct El { tag: &'static str, classes: Vec<String>, id: Option<String>, parent: Option<usize>, idx: usize /*1-based among element siblings*/, tok: Vec<char> }
fn build(ns: &[N], parent: Option<usize>, els: &mut Vec<El>) { let mut idx = 0; for n in ns { match n { N::T(s) => { if let Some(p) = parent { els[p].tok.extend(s.chars().filter(|c| is_tok(*c))); } } N::E(tag, attrs, kids) => { idx += 1; let classes = attrs.iter().filter(|(k,_)| *k=="class").flat_map(|(_,v)| v.split_whitespace().map(|s| s.to_string()).collect::<Vec<_>>()).collect(); let id = attrs.iter().find(|(k,_)| *k=="id").map(|(_,v)| v.clone()); els.push(El{tag, classes, id, parent, idx, tok: vec![]}); let me = els.len()-1; build(kids, Some(me), els); } } } }
fn m_simple(s: &Simple, e: &El) -> bool { match s { Simple::Tag(t) => e.tag == *t, Simple::Class(c) => e.classes.iter().any(|x| x == c), Simple::Id(i) => e.id.as_deref() == Some(*i), Simple::Star => true, Simple::Nth(a,b) => { let i = e.idx as i32; if e.parent.is_none() && false { false } else if *a == 0 { i == *b } else { let d = i - b; d % a == 0 && d / a >= 0 } } } }
fn m_comp(c: &[Simple], e: &El) -> bool { c.iter().all(|s| m_simple(s, e)) }
fn matches(sel: &Sel, els: &[El], i: usize) -> bool {
    // right to left
    let mut comps: Vec<&Vec<Simple>> = vec![&sel.first]; let mut combs: Vec<&Comb> = vec![]; for (c, comp) in &sel.rest { combs.push(c); comps.push(comp); }
    fn go(k: usize, i: usize, comps: &[&Vec<Simple>], combs: &[&Comb], els: &[El]) -> bool { if !m_comp(comps[k], &els[i]) { return false; } if k == 0 { return true; } match combs[k-1] { Comb::Child => els[i].parent.map(|p| go(k-1, p, comps, combs, els)).unwrap_or(false), Comb::Desc => { let mut p = els[i].parent; while let Some(pp) = p { if go(k-1, pp, comps, combs, els) { return true; } p = els[pp].parent; } false } } }
    go(comps.len()-1, i, &comps, &combs, els)
}
fn main() {
    std::panic::set_hook(Box::new(|_| {}));
    // documents
    let mk = |tag: &'static str, cls: &str, id: &str, kids: Vec<N>| { let mut a = vec![]; if !cls.is_empty() { a.push(("class", cls.to_string())); } if !id.is_empty() { a.push(("id", id.to_string())); } ea(tag, a, kids) };
    let docs: Vec<Vec<N>> = vec![
        vec![mk("div","a","",vec![mk("p","b","",vec![t("k"), mk("span","a","i",vec![t("l")]), t("m")]), mk("p","","",vec![t("n")]), mk("div","b","",vec![mk("p","a b","",vec![mk("span","",  "",vec![t("o")])])])]), mk("p","a","",vec![t("q")])],
        vec![mk("ul","","",(0..6).map(|i| mk("li", if i%2==0 {"a"} else {""}, "", vec![t(&((b'r'+i as u8) as char).to_string())])).collect())],
        vec![mk("div","","",vec![t("k"), mk("div","a","",vec![t("l"), mk("div","b","",vec![t("m"), mk("span","a","",vec![t("n")])])]), t("o")])],
    ];
    let simples: Vec<Vec<Simple>> = vec![vec![Simple::Tag("p")], vec![Simple::Tag("div")], vec![Simple::Tag("span")], vec![Simple::Tag("li")], vec![Simple::Star], vec![Simple::Class("a")], vec![Simple::Class("b")], vec![Simple::Id("i")], vec![Simple::Tag("p"), Simple::Class("a")], vec![Simple::Class("a"), Simple::Class("b")], vec![Simple::Tag("li"), Simple::Nth(2,1)], vec![Simple::Nth(0,2)], vec![Simple::Nth(-1,3)], vec![Simple::Tag("div"), Simple::Nth(1,0)]];
    let mut sels: Vec<Sel> = vec![];
    for a in &simples { sels.push(Sel{first: a.clone(), rest: vec![]}); for b in &simples { for c1 in [Comb::Desc, Comb::Child] { sels.push(Sel{first: a.clone(), rest: vec![(c1.clone(), b.clone())]}); for c in simples.iter().take(8) { for c2 in [Comb::Desc, Comb::Child] { sels.push(Sel{first: a.clone(), rest: vec![(c1.clone(), b.clone()), (c2.clone(), c.clone())]}); } } } } }
    eprintln!("{} selectors", sels.len());
    let mut n=0usize; let mut bad: BTreeMap<String,(usize,String)> = BTreeMap::new(); let mut nonempty=0usize;
    for d in &docs { let h = html(d);
        // build element table with html/body wrappers
        let wrapped = vec![e("html", vec![e("head", vec![]), e("body", d.clone())])]; let mut els = vec![]; build(&wrapped, None, &mut els);
        for s in &sels { n+=1; let css = format!("{} {{ color: #010203; }}", sel_str(s));
            let mut exp: BTreeSet<char> = BTreeSet::new();
            for i in 0..els.len() { if matches(s, &els, i) { // all tokens in subtree of i
                for j in 0..els.len() { let mut p = Some(j); let mut inside = false; while let Some(pp) = p { if pp == i { inside = true; break; } p = els[pp].parent; } if inside { exp.extend(els[j].tok.iter()); } } } }
            if !exp.is_empty() { nonempty += 1; }
            let hh = h.clone(); let cc = css.clone();
            let r = std::panic::catch_unwind(move || config::rich().add_css(&cc).map(|c| c.lines_from_read(hh.as_bytes(), 80)));
            let got: Option<BTreeSet<char>> = match r { Ok(Ok(Ok(lines))) => { let mut g = BTreeSet::new(); for l in &lines { for ts in l.tagged_strings() { if ts.tag.iter().any(|t| matches!(t, RichAnnotation::Colour(_))) { g.extend(ts.s.chars().filter(|c| is_tok(*c))); } } } Some(g) } _ => None };
            if got.as_ref() != Some(&exp) { let shape = { let mut k = String::new(); if s.first.iter().chain(s.rest.iter().flat_map(|(_,c)| c.iter())).any(|x| matches!(x, Simple::Star)) { k += "star "; } if s.first.iter().chain(s.rest.iter().flat_map(|(_,c)| c.iter())).any(|x| matches!(x, Simple::Nth(..))) { k += "nth "; } if k.is_empty() { k = "plain ".into(); } k + &format!("ncomb={}", s.rest.len()) };
                let e = bad.entry(shape).or_insert((0, format!("{css:?} on {h}: exp={exp:?} got={got:?}"))); e.0 += 1; }
        } }
    println!("C20 evaluations={n} nonempty-expected={nonempty} bad classes={}", bad.len());
    for (k,(c,e)) in &bad { let ee: String = e.chars().take(500).collect(); println!("{c:7} {k}: {ee}"); }
}
