use html2text::config;
fn main() { let a: Vec<String> = std::env::args().collect(); let n: usize = a[2].parse().unwrap(); let (o,c) = match a[1].as_str() { "ul" => ("<ul><li>".to_string(), "</li></ul>".to_string()), "table" => ("<table><tr><td>".into(), "</td></tr></table>".into()), t => (format!("<{t}>"), format!("</{t}>")) };
  let closed = a.get(3).map(|s| s=="closed").unwrap_or(true);
  let html = o.repeat(n) + "x" + &(if closed { c.repeat(n) } else { String::new() });
  let t0 = std::time::Instant::now(); let r = config::plain().allow_width_overflow().string_from_read(html.as_bytes(), 80); println!("{} n={} -> {:?} lines in {:?}", a[1], n, r.map(|s| s.lines().count()), t0.elapsed()); }
