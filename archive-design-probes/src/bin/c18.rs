// Prototype: C18 display:none == deletion
use html2text::config;
use probe::*;
use std::collections::BTreeMap;
fn paths(ns: &[N], path: &mut Vec<usize>, out: &mut Vec<Vec<usize>>) { for (i,n) in ns.iter().enumerate() { if let N::E(_,_,kids) = n { path.push(i); out.push(path.clone()); paths(kids, path, out); path.pop(); } } }
fn mark(ns: &mut Vec<N>, p: &[usize], how: usize) { if let N::E(_, attrs, kids) = &mut ns[p[0]] { if p.len() == 1 { match how { 0 => attrs.push(("class","h".into())), 1 => attrs.push(("style","display:none".into())), _ => attrs.push(("style","height:0;overflow:hidden".into())) } } else { mark(kids, &p[1..], how); } } }
fn del(ns: &mut Vec<N>, p: &[usize]) { if p.len() == 1 { ns[p[0]] = N::T("<!---->".into()); } else if let N::E(_,_,kids) = &mut ns[p[0]] { del(kids, &p[1..]); } }
fn tagat<'a>(ns: &'a [N], p: &[usize]) -> &'a str { if let N::E(t,_,k) = &ns[p[0]] { if p.len()==1 { t } else { tagat(k, &p[1..]) } } else { "?" } }
fn main() {
    std::panic::set_hook(Box::new(|_| {}));
    let depth: usize = std::env::args().nth(1).map(|s| s.parse().unwrap()).unwrap_or(2);
    fn valid(ns: &[N], in_phrasing: bool) -> bool { ns.iter().all(|n| match n { N::T(_) => true, N::E(t,_,k) => { let block = ["p","div","ul","ol","blockquote","h3","pre","dl","table","li","dt","dd"].contains(t); if in_phrasing && block { return false; } valid(k, in_phrasing || ["p","h3","pre","dt","em","strong","a","code","del","span"].contains(t)) } }) }
    let docs: Vec<Vec<N>> = block_docs(depth, true, true).into_iter().filter(|d| valid(d, false)).collect(); eprintln!("{} docs", docs.len());
    let mut n=0usize; let mut bad: BTreeMap<String,(usize,String)> = BTreeMap::new();
    for d in &docs { let mut ps = vec![]; paths(d, &mut vec![], &mut ps);
        for p in &ps { for how in 0..3 { let mut dm = d.clone(); mark(&mut dm, p, how); let mut dd = d.clone(); del(&mut dd, p); let (hm, hd) = (html(&dm), html(&dd)); let tag = tagat(d, p).to_string();
            for w in [1usize,2,3,4,5,6,8,10,14,20] { n+=1;
                let run = |h: &str, css: bool| { let hh = h.to_string(); std::panic::catch_unwind(move || { let c = config::plain().use_doc_css(); let c = if css { c.add_css(".h{display:none;}").unwrap() } else { c }; c.string_from_read(hh.as_bytes(), w) }).map_err(|_| "PANIC").map(|r| r.map_err(|e| format!("{e:?}"))) };
                let a = run(&hm, true); let b = run(&hd, true);
                if a != b { let kind = match (&a,&b) { (Ok(Ok(_)),Ok(Ok(_))) => "text differs", (Ok(Err(_)),Ok(Ok(_)))|(Ok(Ok(_)),Ok(Err(_))) => "ok/err asymmetry", _ => "other" }; let e = bad.entry(format!("how{how} {tag}: {kind}")).or_insert((0, format!("{hm} vs {hd} @{w}:\n{a:?}\n{b:?}"))); e.0+=1; }
                if how > 0 { // doc css off => style attr has no effect
                    let hh = hm.clone(); let h0 = html(d); let x = std::panic::catch_unwind(move || config::plain().string_from_read(hh.as_bytes(), w)).ok().map(|r| r.ok()); let y = std::panic::catch_unwind(move || config::plain().string_from_read(h0.as_bytes(), w)).ok().map(|r| r.ok()); if x != y { let e = bad.entry("doccss-off: style attr has effect".into()).or_insert((0, format!("{hm} @{w}"))); e.0+=1; } }
            } } }
    }
    println!("C18 evaluations={n} bad classes={}", bad.len());
    for (k,(c,e)) in &bad { let ee: String = e.chars().take(600).collect(); println!("{c:7} {k}: {ee}"); }
}
