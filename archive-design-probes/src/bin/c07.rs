// Prototype: C07 compositionality
use html2text::config;
use probe::*;
use std::collections::BTreeMap;
fn render(h: &str, w: usize, cfg: usize) -> Result<Result<String,String>,&'static str> { let hh = h.to_string(); std::panic::catch_unwind(move || match cfg { 0 => config::plain().link_footnotes(false).string_from_read(hh.as_bytes(), w), _ => config::rich().string_from_read(hh.as_bytes(), w) }).map_err(|_| "PANIC").map(|r| r.map_err(|e| format!("{e:?}"))) }
fn main() {
    std::panic::set_hook(Box::new(|_| {}));
    let depth: usize = std::env::args().nth(1).map(|s| s.parse().unwrap()).unwrap_or(1);
    let maxw = 16;
    let contents = block_docs(depth, true, true);
    let mut n = 0usize; let mut skipped = 0usize; let mut bad: BTreeMap<String,(usize,String)> = BTreeMap::new();
    let starts: Vec<i64> = vec![1, 9, 98, -1, -10, 0, 999];
    for x in &contents { for x2 in contents.iter().take(3) {
        let hx = html(x); let hx2 = html(x2);
        // wrappers: (name, html, Vec<(first_prefix, cont_prefix, content_html)>, blank_between)
        let mut cases: Vec<(String, String, Vec<(String,String,String)>)> = vec![];
        cases.push(("bq".into(), format!("<blockquote>{hx}</blockquote>"), vec![("> ".into(), "> ".into(), hx.clone())]));
        cases.push(("ul".into(), format!("<ul><li>{hx}</li><li>{hx2}</li></ul>"), vec![("* ".into(), "  ".into(), hx.clone()), ("* ".into(), "  ".into(), hx2.clone())]));
        cases.push(("h3".into(), format!("<h3>{hx}</h3>"), vec![("### ".into(), "### ".into(), hx.clone())]));
        cases.push(("dd".into(), format!("<dl><dd>{hx}</dd></dl>"), vec![("  ".into(), "  ".into(), hx.clone())]));
        for &st in &starts { let nums = [st, st+1]; let pw = nums.iter().map(|n| format!("{n}. ").len()).max().unwrap();
            cases.push((format!("ol{st}"), format!("<ol start=\"{st}\"><li>{hx}</li><li>{hx2}</li></ol>"), nums.iter().zip([&hx,&hx2]).map(|(n,h)| (format!("{:<pw$}", format!("{n}. "), pw=pw), " ".repeat(pw), (*h).clone())).collect())); }
        for (name, outer, parts) in &cases { for w in 1..=maxw { for cfg in 0..2 { n += 1;
            let o = render(outer, w, cfg);
            let Ok(Ok(os)) = &o else { if o.is_err() { let e = bad.entry(format!("{name} PANIC")).or_insert((0, format!("{outer} @{w}"))); e.0+=1; } else { skipped += 1; } continue; };
            let mut exp = String::new(); let mut ok = true;
            for (p1, pn, ch) in parts { let pw = sw(p1); if w <= pw { ok = false; break; } match render(ch, w - pw, cfg) { Ok(Ok(s)) => { for (i,l) in s.lines().enumerate() { exp.push_str(if i==0 { p1 } else { pn }); exp.push_str(l); exp.push('\n'); } }, _ => { ok = false; break; } } }
            if !ok { let e = bad.entry(format!("{name} inner-fails-outer-ok")).or_insert((0, format!("{outer} @{w}: {os:?}"))); e.0 += 1; continue; }
            if &exp != os { let e = bad.entry(format!("{name} cfg{cfg}")).or_insert((0, format!("{outer} @{w}:\nexp={exp:?}\ngot={os:?}"))); e.0 += 1; }
        } } }
    } }
    println!("C07 evaluations={n} skipped(outer err)={skipped} bad classes={}", bad.len());
    for (k,(c,e)) in &bad { println!("{c:7} {k}: {e}"); }
}
