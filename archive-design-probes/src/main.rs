use html2text::config::{self, Config};
use html2text::render::{TaggedLineElement, TextDecorator};
use unicode_width::UnicodeWidthStr;
// usage: probe [-w N[,N..]] [-d plain|nodec|rich|trivial] [-o opt,opt..] [--css CSS] [--agent CSS] HTML
fn apply<D: TextDecorator>(mut c: Config<D>, opts: &[String], css: &Option<String>, agent:&Option<String>) -> Config<D> {
    for o in opts {
        let (k, v) = match o.split_once('=') { Some((k,v)) => (k, Some(v)), None => (o.as_str(), None) };
        c = match k {
            "overflow" => c.allow_width_overflow(),
            "pad" => c.pad_block_width(),
            "raw" => c.raw_mode(true),
            "noborders" => c.no_table_borders(),
            "nolinkwrap" => c.no_link_wrapping(),
            "maxwrap" => c.max_wrap_width(v.unwrap().parse().unwrap()),
            "minwrap" => c.min_wrap_width(v.unwrap().parse().unwrap()),
            "footnotes" => c.link_footnotes(v.unwrap_or("true") == "true"),
            "strike" => c.unicode_strikeout(v.unwrap_or("true") == "true"),
            "decorate" => c.do_decorate(),
            "doccss" => c.use_doc_css(),
            "" => c,
            _ => panic!("unknown opt {k}"),
        };
    }
    if let Some(s) = css { c = c.add_css(s).expect("css parse error"); }
    if let Some(s) = agent { c = c.add_agent_css(s).expect("css parse error"); }
    c
}
fn main() {
    let args: Vec<String> = std::env::args().skip(1).collect();
    let mut widths = vec![20usize]; let mut dec = "plain".to_string(); let mut opts: Vec<String> = vec![];
    let mut css = None; let mut agent=None; let mut html = String::new();
    let mut i = 0;
    while i < args.len() {
        match args[i].as_str() {
            "-w" => { i+=1; widths = args[i].split(',').flat_map(|s| { if let Some((a,b)) = s.split_once("..") { (a.parse::<usize>().unwrap()..=b.parse().unwrap()).collect::<Vec<_>>() } else { vec![s.parse().unwrap()] } }).collect(); }
            "-d" => { i+=1; dec = args[i].clone(); }
            "-o" => { i+=1; opts = args[i].split(',').map(|s| s.to_string()).collect(); }
            "--css" => { i+=1; css = Some(args[i].clone()); }
            "--agent" => { i+=1; agent = Some(args[i].clone()); }
            s => html = s.to_string(),
        }
        i+=1;
    }
    let html = if let Some(f) = html.strip_prefix("@") { std::fs::read_to_string(f).unwrap() } else { html.replace("\\n", "\n").replace("\\t", "\t") };
    for &w in &widths {
        println!("=== w={w} dec={dec} opts={opts:?}");
        let h = html.clone(); let o = opts.clone(); let cs = css.clone(); let ag = agent.clone(); let d = dec.clone();
        let r = std::panic::catch_unwind(move || {
            match d.as_str() {
                "plain" => apply(config::plain(), &o, &cs, &ag).string_from_read(h.as_bytes(), w).map(|s| s.lines().map(|l| format!("|{}| ({})", l, l.width())).collect::<Vec<_>>()),
                "nodec" => apply(config::plain_no_decorate(), &o, &cs, &ag).string_from_read(h.as_bytes(), w).map(|s| s.lines().map(|l| format!("|{}| ({})", l, l.width())).collect::<Vec<_>>()),
                "trivial" => apply(config::with_decorator(html2text::render::TrivialDecorator::new()), &o, &cs, &ag).string_from_read(h.as_bytes(), w).map(|s| s.lines().map(|l| format!("|{}| ({})", l, l.width())).collect::<Vec<_>>()),
                "rich" => apply(config::rich(), &o, &cs, &ag).lines_from_read(h.as_bytes(), w).map(|ls| ls.iter().map(|l| {
                    let mut s = String::new();
                    for e in l.iter() { match e { TaggedLineElement::Str(ts) => s += &format!("{:?}{:?} ", ts.s, ts.tag), TaggedLineElement::FragmentStart(f) => s += &format!("<#{f}> ") } }
                    s }).collect::<Vec<_>>()),
                _ => panic!("dec"),
            }
        });
        match r { Ok(Ok(ls)) => for l in ls { println!("{l}"); }, Ok(Err(e)) => println!("ERR {e:?}"), Err(_) => println!("PANIC") }
    }
}
