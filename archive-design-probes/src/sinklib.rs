// Prototype: independent arena TreeSink
use html5ever::tendril::{StrTendril, TendrilSink};
use html5ever::tree_builder::{ElementFlags, NodeOrText, QuirksMode, TreeSink};
use html5ever::{parse_document, Attribute, ExpandedName, QualName, ParseOpts};
use html5ever::tree_builder::TreeBuilderOpts;
use std::borrow::Cow; use std::cell::RefCell;
#[derive(Debug)] pub enum Data { Doc, Text(String), Comment, Elem(QualName, Vec<(String,String)>), Other }
#[derive(Debug)] pub struct Node { pub data: Data, pub parent: Option<usize>, pub kids: Vec<usize> }
#[derive(Default)] pub struct Arena { pub nodes: RefCell<Vec<Node>> }
impl Arena { fn new_node(&self, d: Data) -> usize { let mut n = self.nodes.borrow_mut(); n.push(Node{data:d,parent:None,kids:vec![]}); n.len()-1 }
  fn detach(&self, t: usize) { let p = self.nodes.borrow()[t].parent; if let Some(p) = p { let mut n = self.nodes.borrow_mut(); n[p].kids.retain(|&k| k != t); n[t].parent = None; } }
  fn append_node(&self, p: usize, c: usize) { self.detach(c); let mut n = self.nodes.borrow_mut(); n[c].parent = Some(p); n[p].kids.push(c); }
  fn append_text(&self, p: usize, before: Option<usize>, s: &str) { let mut n = self.nodes.borrow_mut(); let pos = match before { Some(b) => n[p].kids.iter().position(|&k| k==b).unwrap(), None => n[p].kids.len() };
      if pos > 0 { let prev = n[p].kids[pos-1]; if let Data::Text(ref mut t) = n[prev].data { t.push_str(s); return; } }
      n.push(Node{data: Data::Text(s.to_string()), parent: Some(p), kids: vec![]}); let id = n.len()-1; n[p].kids.insert(pos, id); } }
struct Sink { a: Arena, names: RefCell<Vec<Option<&'static QualName>>> }
impl TreeSink for Sink { type Handle = usize; type Output = Arena; type ElemName<'a> = ExpandedName<'a>;
  fn finish(self) -> Arena { self.a }
  fn parse_error(&self, _m: Cow<'static, str>) {}
  fn get_document(&self) -> usize { 0 }
  fn elem_name<'a>(&'a self, t: &'a usize) -> ExpandedName<'a> { let q: &'static QualName = self.names.borrow()[*t].expect("not an element"); q.expanded() }
  fn create_element(&self, name: QualName, attrs: Vec<Attribute>, _f: ElementFlags) -> usize { let id = self.a.new_node(Data::Elem(name.clone(), attrs.iter().map(|a| (a.name.local.to_string(), a.value.to_string())).collect())); let leaked: &'static QualName = Box::leak(Box::new(name)); let mut n = self.names.borrow_mut(); while n.len() <= id { n.push(None); } n[id] = Some(leaked); id }
  fn create_comment(&self, _t: StrTendril) -> usize { self.a.new_node(Data::Comment) }
  fn create_pi(&self, _t: StrTendril, _d: StrTendril) -> usize { self.a.new_node(Data::Other) }
  fn append(&self, p: &usize, c: NodeOrText<usize>) { match c { NodeOrText::AppendNode(n) => self.a.append_node(*p, n), NodeOrText::AppendText(t) => self.a.append_text(*p, None, &t) } }
  fn append_based_on_parent_node(&self, el: &usize, prev: &usize, c: NodeOrText<usize>) { let has_parent = self.a.nodes.borrow()[*el].parent.is_some(); if has_parent { self.append_before_sibling(el, c) } else { self.append(prev, c) } }
  fn append_doctype_to_document(&self, _n: StrTendril, _p: StrTendril, _s: StrTendril) {}
  fn get_template_contents(&self, t: &usize) -> usize { *t }
  fn same_node(&self, x: &usize, y: &usize) -> bool { x == y }
  fn set_quirks_mode(&self, _m: QuirksMode) {}
  fn append_before_sibling(&self, sib: &usize, c: NodeOrText<usize>) { let p = self.a.nodes.borrow()[*sib].parent.expect("no parent"); match c { NodeOrText::AppendText(t) => self.a.append_text(p, Some(*sib), &t), NodeOrText::AppendNode(n) => { self.a.detach(n); let mut ns = self.a.nodes.borrow_mut(); let pos = ns[p].kids.iter().position(|&k| k==*sib).unwrap(); ns[n].parent = Some(p); ns[p].kids.insert(pos, n); } } }
  fn add_attrs_if_missing(&self, t: &usize, attrs: Vec<Attribute>) { let mut ns = self.a.nodes.borrow_mut(); if let Data::Elem(_, ref mut ex) = ns[*t].data { for a in attrs { let k = a.name.local.to_string(); if !ex.iter().any(|(kk,_)| *kk == k) { ex.push((k, a.value.to_string())); } } } }
  fn remove_from_parent(&self, t: &usize) { self.a.detach(*t) }
  fn reparent_children(&self, node: &usize, np: &usize) { let kids: Vec<usize> = self.a.nodes.borrow()[*node].kids.clone(); for k in kids { self.a.append_node(*np, k); } }
}

pub fn parse(html: &[u8]) -> Arena { let sink = Sink { a: Arena::default(), names: RefCell::new(vec![]) }; sink.a.new_node(Data::Doc);
  let opts = ParseOpts { tree_builder: TreeBuilderOpts { drop_doctype: true, ..Default::default() }, ..Default::default() };
  parse_document(sink, opts).from_utf8().read_from(&mut &html[..]).unwrap() }
/// visible text per the C03 oracle: text nodes + img alt (with src), skipping head/script/style/template subtrees (html namespace only)
pub fn visible(a: &Arena, strict_lists: bool) -> String { let ns = a.nodes.borrow(); let mut out = String::new(); fn go(ns: &Vec<Node>, i: usize, out: &mut String, strict: bool) { match &ns[i].data { Data::Text(t) => out.push_str(t), Data::Elem(q, at) => { let html = &*q.ns == "http://www.w3.org/1999/xhtml"; let l = &*q.local; if html && ["head","script","style","template","link","meta","hr"].contains(&l) { return; } if html && l == "img" { let src = at.iter().find(|(k,_)| k=="src").map(|(_,v)| v.clone()).unwrap_or_default(); let alt = at.iter().find(|(k,_)| k=="alt").map(|(_,v)| v.clone()).unwrap_or_default(); if !src.is_empty() { out.push_str(&alt); } return; }
      for &k in &ns[i].kids { if !strict && html && (l == "ol" || l == "dl") { if let Data::Elem(kq,_) = &ns[k].data { let kl = &*kq.local; if (l=="ol" && kl=="li") || (l=="dl" && (kl=="dt"||kl=="dd")) { go(ns,k,out,strict); } } continue; } go(ns, k, out, strict); } }
      Data::Doc => { for &k in &ns[i].kids { go(ns,k,out,strict); } } _ => {} } } go(&ns, 0, &mut out, strict_lists); out }
