//! prototype doc model
use unicode_width::UnicodeWidthChar;
#[derive(Clone, Debug, PartialEq)]
pub enum N { T(String), E(&'static str, Vec<(&'static str, String)>, Vec<N>) }
pub fn e(tag: &'static str, kids: Vec<N>) -> N { N::E(tag, vec![], kids) }
pub fn ea(tag: &'static str, attrs: Vec<(&'static str, String)>, kids: Vec<N>) -> N { N::E(tag, attrs, kids) }
pub fn t(s: &str) -> N { N::T(s.to_string()) }
pub const VOID: &[&str] = &["br", "img", "hr"];
pub fn ser(n: &N, out: &mut String) {
    match n { N::T(s) => out.push_str(s),
      N::E(tag, attrs, kids) => { out.push('<'); out.push_str(tag); for (k,v) in attrs { out.push(' '); out.push_str(k); out.push_str("=\""); out.push_str(v); out.push('"'); } out.push('>');
        if VOID.contains(tag) { return; }
        for k in kids { ser(k, out); } out.push_str("</"); out.push_str(tag); out.push('>'); } }
}
pub fn html(ns: &[N]) -> String { let mut s = String::new(); for n in ns { ser(n, &mut s); } s }
pub fn cw(c: char) -> usize { UnicodeWidthChar::width(c).unwrap_or(0) }
pub fn sw(s: &str) -> usize { s.chars().map(cw).sum() }
/// flow text (visible chars in doc order); img alt included
pub fn flow(ns: &[N], out: &mut String) { for n in ns { match n { N::T(s) => out.push_str(s), N::E(tag, attrs, kids) => { if *tag == "img" { for (k,v) in attrs { if *k=="alt" { out.push_str(v); } } } else if *tag=="br" { out.push('\n'); } else { flow(kids, out); } } } } }
pub fn is_tok(c: char) -> bool { c.is_alphabetic() || (cw(c) == 0 && !c.is_whitespace() && !c.is_control() && c != '\u{336}') }

/// inline content menu: each entry is a Vec<N> (an inline run). Tokens are unique-ish letters.
pub fn inline_menu() -> Vec<Vec<N>> {
    vec![
        vec![t("qa")],
        vec![t("qb qc")],
        vec![t("qdqdqdqd qe")],
        vec![t(" qf "), e("em", vec![t("qg")]), t(" qh")],
        vec![t("q中 中r")],
        vec![ea("a", vec![("href","/1".into())], vec![t("qi")]), t(" qj")],
        vec![t("qk"), e("br", vec![]), t("ql")],
        vec![ea("img", vec![("src","/s".into()),("alt","qm".into())], vec![])],
        vec![e("strong", vec![t("qn"), e("code", vec![t("qo")])]), t("qp")],
        vec![e("del", vec![t("qs")]), t(" e\u{301}t")],
    ]
}
/// enumerate block documents of nesting depth <= depth. `tables` toggles tables, `pre` toggles pre.
pub fn block_docs(depth: usize, tables: bool, pre: bool) -> Vec<Vec<N>> {
    let inl = inline_menu();
    if depth == 0 { return inl; }
    let sub = block_docs(depth - 1, tables, pre);
    let mut out: Vec<Vec<N>> = vec![];
    let q = vec![t("qz")];
    for s in &sub {
        out.push(vec![e("p", s.clone())]);
        out.push(vec![e("div", s.clone())]);
        out.push(vec![e("ul", vec![e("li", s.clone())])]);
        out.push(vec![e("ul", vec![e("li", s.clone()), e("li", q.clone())])]);
        out.push(vec![ea("ol", vec![], vec![e("li", s.clone())])]);
        out.push(vec![ea("ol", vec![("start","9".into())], vec![e("li", q.clone()), e("li", s.clone())])]);
        out.push(vec![e("blockquote", s.clone())]);
        out.push(vec![e("h3", s.clone())]);
        out.push(vec![e("dl", vec![e("dt", q.clone()), e("dd", s.clone())])]);
        if pre { out.push(vec![e("pre", s.clone())]); }
        if tables {
            out.push(vec![e("table", vec![e("tr", vec![e("td", s.clone())])])]);
            out.push(vec![e("table", vec![e("tr", vec![e("td", s.clone()), e("td", q.clone())])])]);
            out.push(vec![e("table", vec![e("tr", vec![e("td", q.clone()), e("td", s.clone())]), e("tr", vec![ea("td", vec![("colspan","2".into())], s.clone())])])]);
        }
        // sibling sequence
        out.push(vec![e("p", q.clone()), s.clone().into_iter().next().map(|_| e("div", s.clone())).unwrap(), e("p", q.clone())]);
    }
    out.extend(sub);
    out
}

pub mod sinklib;
