#!/bin/bash
# usage: mut.sh NAME FILE 'python-expr-old' 'new' PROBE [ARGS...]
name=$1; file=$2; old=$3; new=$4; shift 4
rm -rf /root/scratch/mut && cp -r /root/scratch/repo2 /root/scratch/mut
python3 - "$file" "$old" "$new" <<'PY'
import sys
f,old,new=sys.argv[1:4]
p='/root/scratch/mut/'+f; s=open(p).read()
assert s.count(old)>=1, "pattern not found"
s=s.replace(old,new,1); open(p,'w').write(s)
PY
[ $? -eq 0 ] || { echo "$name: PATTERN NOT FOUND"; exit; }
cd /root/scratch/mut && t=$(CARGO_NET_OFFLINE=true CARGO_TARGET_DIR=/root/scratch/target-repo cargo test --offline --lib --features css 2>&1 | grep -E "^test result" | head -1)
ln -sfn /root/scratch/mut /root/scratch/subject; touch /root/scratch/mut/src/lib.rs /root/scratch/mut/$file
cd /root/scratch/probe && CARGO_NET_OFFLINE=true CARGO_TARGET_DIR=/root/scratch/target cargo build --release --offline --bin $1 2>&1 | grep -E "^error" -A5
r=$(/root/scratch/target/release/"$@" 2>/dev/null | grep -E "bad classes|violation classes|mismatching classes|^ *[0-9]+ " | cut -c1-160 | head -4)
echo "$name | suite: $t | probe $*: $r"
