//! Document model, serialiser and the depth-bounded block grammar shared by the properties.
use serde::{Deserialize, Serialize};
use std::collections::HashSet;

#[derive(Clone, Debug, PartialEq, Eq, Hash, Serialize, Deserialize)]
pub enum N {
    /// text (serialised verbatim – entities are not used by the generators)
    T(String),
    /// element: tag, attributes, children
    E(String, Vec<(String, String)>, Vec<N>),
    /// comment
    C(String),
}
pub fn e(tag: &str, kids: Vec<N>) -> N {
    N::E(tag.to_string(), vec![], kids)
}
pub fn ea(tag: &str, attrs: &[(&str, &str)], kids: Vec<N>) -> N {
    N::E(tag.to_string(), attrs.iter().map(|(k, v)| (k.to_string(), v.to_string())).collect(), kids)
}
pub fn t(s: &str) -> N {
    N::T(s.to_string())
}
pub const VOID: &[&str] = &["br", "img", "hr"];

pub fn ser(n: &N, out: &mut String) {
    match n {
        N::T(s) => out.push_str(s),
        N::C(s) => {
            out.push_str("<!--");
            out.push_str(s);
            out.push_str("-->");
        }
        N::E(tag, attrs, kids) => {
            out.push('<');
            out.push_str(tag);
            for (k, v) in attrs {
                out.push(' ');
                out.push_str(k);
                out.push_str("=\"");
                out.push_str(v);
                out.push('"');
            }
            out.push('>');
            if VOID.contains(&tag.as_str()) {
                return;
            }
            for k in kids {
                ser(k, out);
            }
            out.push_str("</");
            out.push_str(tag);
            out.push('>');
        }
    }
}
pub fn html(ns: &[N]) -> String {
    let mut s = String::new();
    for n in ns {
        ser(n, &mut s);
    }
    s
}

pub fn has_tag(ns: &[N], tags: &[&str]) -> bool {
    ns.iter().any(|n| match n {
        N::E(t, _, k) => tags.contains(&t.as_str()) || has_tag(k, tags),
        _ => false,
    })
}
pub fn count_nodes(ns: &[N]) -> u64 {
    ns.iter()
        .map(|n| match n {
            N::E(_, _, k) => 2 + count_nodes(k),
            _ => 1,
        })
        .sum()
}

const BLOCKS: &[&str] = &["p", "div", "ul", "ol", "blockquote", "h1", "h2", "h3", "h4", "h5", "h6", "pre", "dl", "table", "li", "dt", "dd"];
const PHRASING_ONLY: &[&str] = &["p", "h1", "h2", "h3", "h4", "h5", "h6", "pre", "dt", "em", "strong", "a", "code", "del", "s", "span", "i", "sup"];

/// Content-model check: the HTML parser will build exactly this tree (no implied end tags,
/// no re-parenting), so the generator's tree can be used as ground truth.
pub fn valid(ns: &[N]) -> bool {
    fn go(ns: &[N], in_phrasing: bool, in_a: bool, in_heading: bool) -> bool {
        ns.iter().all(|n| match n {
            N::E(t, _, k) => {
                let t = t.as_str();
                let block = BLOCKS.contains(&t);
                if in_phrasing && block {
                    return false;
                }
                if in_a && t == "a" {
                    return false;
                }
                let heading = t.len() == 2 && t.starts_with('h') && t != "hr";
                if in_heading && heading {
                    return false;
                }
                go(k, in_phrasing || PHRASING_ONLY.contains(&t), in_a || t == "a", in_heading || heading)
            }
            _ => true,
        })
    }
    go(ns, false, false, false)
}

/// Inline runs (level 0 of the grammar).  Tokens use their own letters so that an output
/// character identifies the source token.
pub fn inline_menu() -> Vec<Vec<N>> {
    vec![
        vec![t("qa")],
        vec![t("qb qc")],
        vec![t("qdqdqdqd qe")],
        vec![t(" qf Qa "), e("em", vec![t("qg")]), t(" qh")],
        vec![t("q中 中r")],
        vec![ea("a", &[("href", "/1")], vec![t("qi")]), t(" qj")],
        vec![t("qk"), e("br", vec![]), t("ql")],
        vec![ea("img", &[("src", "/s"), ("alt", "qm")], vec![])],
        vec![e("strong", vec![t("qn"), e("code", vec![t("qo")])]), t("qp")],
        vec![e("del", vec![t("qs qu")]), t(" e\u{301}t")],
        vec![e("em", vec![t("qv")]), t(" "), e("strong", vec![t("qw")]), t(" "), e("code", vec![t("qx")])],
        vec![t("qy "), ea("a", &[("href", "/2")], vec![t("qq"), e("strong", vec![t("qr")]), t("qt")])],
    ]
}

#[derive(Clone, Copy, Debug)]
pub struct G {
    pub tables: bool,
    pub pre: bool,
    /// keep only documents whose tree the HTML parser reproduces exactly
    pub valid_only: bool,
}

/// All documents of block-nesting depth <= depth (de-duplicated, deterministic order,
/// simplest first).
pub fn block_docs(depth: usize, g: G) -> Vec<Vec<N>> {
    fn rec(depth: usize, g: G) -> Vec<Vec<N>> {
        let inl = inline_menu();
        if depth == 0 {
            return inl;
        }
        let sub = rec(depth - 1, g);
        let mut out: Vec<Vec<N>> = vec![];
        let q = vec![t("qz")];
        out.extend(sub.iter().cloned());
        for s in &sub {
            out.push(vec![e("p", s.clone())]);
            out.push(vec![e("div", s.clone())]);
            out.push(vec![e("ul", vec![e("li", s.clone())])]);
            out.push(vec![e("ul", vec![e("li", s.clone()), e("li", q.clone())])]);
            out.push(vec![e("ol", vec![e("li", s.clone())])]);
            out.push(vec![ea("ol", &[("start", "9")], vec![e("li", q.clone()), e("li", s.clone())])]);
            out.push(vec![e("blockquote", s.clone())]);
            out.push(vec![e("h3", s.clone())]);
            out.push(vec![e("dl", vec![e("dt", q.clone()), e("dd", s.clone())])]);
            if g.pre {
                out.push(vec![e("pre", s.clone())]);
            }
            if g.tables {
                out.push(vec![e("table", vec![e("tr", vec![e("td", s.clone())])])]);
                out.push(vec![e("table", vec![e("tr", vec![e("td", s.clone()), e("td", q.clone())])])]);
                out.push(vec![e(
                    "table",
                    vec![e("tr", vec![e("td", q.clone()), e("td", s.clone())]), e("tr", vec![ea("td", &[("colspan", "2")], s.clone())])],
                )]);
            }
            out.push(vec![e("p", q.clone()), e("div", s.clone()), e("p", q.clone())]);
        }
        out
    }
    let mut seen: HashSet<String> = HashSet::new();
    let mut out = vec![];
    for d in rec(depth, g) {
        if g.valid_only && !valid(&d) {
            continue;
        }
        if seen.insert(html(&d)) {
            out.push(d);
        }
    }
    out
}

/// Paths to all element nodes (pre-order).
pub fn elem_paths(ns: &[N]) -> Vec<Vec<usize>> {
    fn walk(ns: &[N], path: &mut Vec<usize>, out: &mut Vec<Vec<usize>>) {
        for (i, n) in ns.iter().enumerate() {
            if let N::E(_, _, kids) = n {
                path.push(i);
                out.push(path.clone());
                walk(kids, path, out);
                path.pop();
            }
        }
    }
    let mut out = vec![];
    walk(ns, &mut vec![], &mut out);
    out
}
pub fn node_at<'a>(ns: &'a [N], p: &[usize]) -> &'a N {
    let n = &ns[p[0]];
    if p.len() == 1 {
        n
    } else if let N::E(_, _, k) = n {
        node_at(k, &p[1..])
    } else {
        n
    }
}
pub fn node_at_mut<'a>(ns: &'a mut Vec<N>, p: &[usize]) -> &'a mut N {
    if p.len() == 1 {
        &mut ns[p[0]]
    } else if let N::E(_, _, k) = &mut ns[p[0]] {
        node_at_mut(k, &p[1..])
    } else {
        unreachable!()
    }
}
pub fn tag_of(n: &N) -> &str {
    match n {
        N::E(t, _, _) => t,
        _ => "",
    }
}

/// Split serialised HTML into tag tokens and text tokens.
pub fn html_tokens(h: &str) -> Vec<String> {
    let mut v = vec![];
    let mut cur = String::new();
    let mut in_tag = false;
    for c in h.chars() {
        if c == '<' {
            if !cur.is_empty() {
                v.push(std::mem::take(&mut cur));
            }
            in_tag = true;
            cur.push(c);
        } else if c == '>' && in_tag {
            cur.push(c);
            v.push(std::mem::take(&mut cur));
            in_tag = false;
        } else {
            cur.push(c);
        }
    }
    if !cur.is_empty() {
        v.push(cur);
    }
    v
}
