//! C02 No output line is wider than the requested width.
//! Invariant on every successful rendering, over grammar documents, regression seeds, a
//! slice of the table universe and every single-byte corruption of the small documents,
//! x widths x decorators x deviation-bounded configurations (without width overflow and
//! with wrappable link footnotes).
use crate::configs::configs;
use crate::doc::G;
use crate::engine::*;
use crate::run::*;
use crate::universe::*;
use crate::util::*;
use serde_json::{json, Value};

pub struct P;
pub static C02: P = P;

fn allowed(o: &Opt) -> bool {
    !matches!(o, Opt::Overflow | Opt::NoLinkWrap)
}

/// The invariant, on one (document, width, configuration).
pub fn check_one(html: &[u8], w: usize, cfg: &Cfg, cx: &mut Cx) {
    let r = cx.render(html, w, cfg);
    cx.state(1);
    match &r {
        Out::Ok(s) => {
            let mut widest = 0;
            let mut bad: Option<&str> = None;
            for l in s.lines() {
                let lw = sw(l);
                widest = widest.max(lw);
                if lw > w && bad.is_none() {
                    bad = Some(l);
                }
            }
            if widest + 1 >= w {
                cx.nontrivial();
            }
            if let Some(l) = bad {
                let class = format!("line over by {} [{}]", sw(l) - w, shape_key(html));
                cx.violation(&class, || json!({"case": case_json(html, w, cfg), "line": l, "line_width": sw(l), "output": s,
                    "as_unit_test": format!("#[test] fn c02_replay() {{ let s = {}.string_from_read(&{:?}[..], {}).unwrap(); for l in s.lines() {{ assert!(unicode_width::UnicodeWidthStr::width(l) <= {}); }} }}", cfg.as_rust(), String::from_utf8_lossy(html), w, w)}));
            }
        }
        Out::TooNarrow => {}
        Out::CssErr => {}
        other => {
            let class = format!("{}: {}", other.kind(), match other { Out::Panic(m) => m.clone(), Out::OtherErr(m) => m.clone(), _ => String::new() });
            cx.violation(&class, || json!({"case": case_json(html, w, cfg), "observed": format!("{other:?}")}));
        }
    }
}
/// The same bound on the line-oriented output (sum of piece widths), plus text agreement.
pub fn check_lines(html: &[u8], w: usize, cfg: &Cfg, cx: &mut Cx) {
    let r = cx.render_lines(html, w, cfg);
    cx.state(1);
    if let Out::Ok(ls) = &r {
        for l in ls {
            let t = line_text(l);
            if sw(&t) > w {
                let class = format!("lines_from_read: line over by {} [{}]", sw(&t) - w, shape_key(html));
                cx.violation(&class, || json!({"case": case_json(html, w, cfg), "api": "lines_from_read", "line": t}));
                break;
            }
        }
    }
}

/// A group of documents explored with the same widths / deviation bound.
struct Group {
    name: &'static str,
    docs: Vec<Vec<u8>>,
    maxw: usize,
    /// deviation bound for the plain decorator / for rich and trivial
    dev: (usize, usize),
    /// None = every width 1..=maxw, Some = this list
    widths: Option<Vec<usize>>,
}
struct S {
    groups: Vec<Group>,
}
impl Scope for S {
    fn units(&self) -> u64 {
        self.groups.iter().map(|g| g.docs.len() as u64).sum()
    }
    fn run_unit(&self, unit: u64, cx: &mut Cx) {
        let mut u = unit as usize;
        let mut gi = 0;
        while u >= self.groups[gi].docs.len() {
            u -= self.groups[gi].docs.len();
            gi += 1;
        }
        let g = &self.groups[gi];
        let html = &g.docs[u];
        let widths: Vec<usize> = g.widths.clone().unwrap_or_else(|| (1..=g.maxw).collect());
        for w in widths {
            for (dec, dev) in [(Dec::Plain, g.dev.0), (Dec::Rich, g.dev.1), (Dec::Trivial, g.dev.1)] {
                for cfg in configs(&dec, w, dev, &allowed) {
                    check_one(html, w, &cfg, cx);
                }
            }
            check_lines(html, w, &Cfg::rich(), cx);
        }
    }
    fn info(&self) -> Info {
        Info {
            rule: "documents: block grammar to the stated depth + regression seeds + a slice of the regular-table universe + every single-byte edit (14-byte alphabet) of the smallest documents; x widths x {plain,rich,trivial} x all configurations of deviation <= d without allow_width_overflow/no_link_wrapping; (doc,width,config) triples distinct by construction (documents de-duplicated per group); non-trivial = rendering succeeded and some line is at least width-1 wide".into(),
            bounds: json!({"groups": self.groups.iter().map(|g| json!({"name": g.name, "documents": g.docs.len(), "widths": match &g.widths { Some(w) => json!(w), None => json!(format!("1..={}", g.maxw)) }, "deviation_plain": g.dev.0, "deviation_rich_trivial": g.dev.1})).collect::<Vec<_>>(),
                "byte_alphabet": crate::mutate::BYTE_ALPHABET.to_vec()}),
            assumptions: vec!["display width = unicode-width per character, as the renderer measures".into()],
        }
    }
}
impl Prop for P {
    fn id(&self) -> &'static str {
        "C02"
    }
    fn build(&self, tier: Tier) -> Box<dyn Scope> {
        let g = G { tables: true, pre: true, valid_only: false };
        let b = |v: Vec<String>| v.into_iter().map(|s| s.into_bytes()).collect::<Vec<_>>();
        let small = doc_universe(1, g, true, false);
        let tables = table_slice(tier.pick(300, 3000));
        let seen: std::collections::HashSet<&String> = small.iter().collect();
        let d2: Vec<String> = doc_universe(2, g, false, false).into_iter().filter(|d| !seen.contains(d)).collect();
        let mut groups = vec![
            Group { name: "depth<=1 + seeds", docs: b(small.clone()), maxw: tier.pick(16, 120), dev: (2, 2), widths: None },
            Group { name: "table slice", docs: b(tables), maxw: tier.pick(16, 60), dev: (1, 1), widths: None },
            Group { name: "depth 2", docs: b(d2.clone()), maxw: tier.pick(16, 120), dev: (1, tier.pick(0, 1)), widths: None },
        ];
        if tier == Tier::Thorough {
            let seen2: std::collections::HashSet<&String> = small.iter().chain(d2.iter()).collect();
            let d3: Vec<String> = doc_universe(3, g, false, false).into_iter().filter(|d| !seen2.contains(d)).collect();
            groups.push(Group { name: "depth 3", docs: b(d3), maxw: 40, dev: (1, 0), widths: None });
        }
        let cseeds = doc_universe(tier.pick(0, 1), g, true, false);
        groups.push(Group { name: "single-byte corruption", docs: corruption_universe(&cseeds, tier.pick(48, 64)), maxw: 21, dev: (0, 0), widths: Some(vec![1, 2, 3, 5, 8, 13, 21]) });
        Box::new(S { groups })
    }
    fn replay(&self, case: &Value, cx: &mut Cx) {
        let (html, w, cfg) = case_from_json(case);
        check_one(&html, w, &cfg, cx);
        check_lines(&html, w, &cfg, cx);
    }
}
