//! C07 Lists, quotes, headings prefix every line; ordered items count from start.
//! Compositionality relation on the real code: render(B(X1..Xn), w) is the concatenation of
//! prefix_i (+) render(X_i, w - |prefix|), with reference numbering / marker padding.
use crate::doc::*;
use crate::engine::*;
use crate::run::*;
use crate::util::*;
use serde::{Deserialize, Serialize};
use serde_json::{json, Value};
use std::collections::HashMap;

pub struct P;
pub static C07: P = P;

#[derive(Serialize, Deserialize, Clone, Debug)]
pub struct Case {
    pub wrapper: String,
    pub outer: String,
    /// (first-line prefix, continuation prefix, content html)
    pub parts: Vec<(String, String, String)>,
    pub width: usize,
    pub cfg: Cfg,
}

fn quote_prefix(cfg: &Cfg) -> (String, String) {
    match &cfg.dec {
        Dec::Trivial => ("".into(), "".into()),
        Dec::Custom(p) => (p.quote.clone(), p.quote.clone()),
        _ => ("> ".into(), "> ".into()),
    }
}
fn ul_prefix(cfg: &Cfg) -> (String, String) {
    match &cfg.dec {
        Dec::Trivial => ("".into(), "".into()),
        Dec::Custom(p) => (p.ul.clone(), " ".repeat(sw(&p.ul))),
        _ => ("* ".into(), "  ".into()),
    }
}
fn header_prefix(cfg: &Cfg, level: usize) -> (String, String) {
    let s = match &cfg.dec {
        Dec::Trivial => "".to_string(),
        Dec::Custom(p) => p.header.repeat(level) + " ",
        _ => "#".repeat(level) + " ",
    };
    (s.clone(), s)
}
fn ol_marker(cfg: &Cfg, i: i64) -> String {
    match &cfg.dec {
        Dec::Trivial => "".to_string(),
        Dec::Custom(p) => format!("{}{}", i, p.ol_suffix),
        _ => format!("{}. ", i),
    }
}
/// Reference numbering: markers start, start+1, .. padded (display width) to the widest of
/// the first and the last marker.
pub fn ol_prefixes(cfg: &Cfg, start: i64, n: usize) -> Vec<(String, String)> {
    let last = start.saturating_add(n as i64).saturating_sub(1);
    let pw = sw(&ol_marker(cfg, start)).max(sw(&ol_marker(cfg, last)));
    (0..n)
        .map(|k| {
            let m = ol_marker(cfg, start.saturating_add(k as i64));
            let pad = pw.saturating_sub(sw(&m));
            (m + &" ".repeat(pad), " ".repeat(pw))
        })
        .collect()
}

/// All wrapper instances around content `x` (html) with fillers; returns (name, outer html, parts).
pub fn wrappers(x: &str, cfg: &Cfg, tier: Tier) -> Vec<(String, String, Vec<(String, String, String)>)> {
    let fill = ["qz", "<p>qy qx</p>"];
    let mut out = vec![];
    let (q1, qn) = quote_prefix(cfg);
    out.push(("blockquote".to_string(), format!("<blockquote>{x}</blockquote>"), vec![(q1, qn, x.to_string())]));
    let (u1, un) = ul_prefix(cfg);
    out.push(("ul/1".to_string(), format!("<ul><li>{x}</li></ul>"), vec![(u1.clone(), un.clone(), x.to_string())]));
    out.push((
        "ul/3".to_string(),
        format!("<ul><li>{}</li><li>{x}</li><li>{}</li></ul>", fill[0], fill[1]),
        vec![(u1.clone(), un.clone(), fill[0].to_string()), (u1.clone(), un.clone(), x.to_string()), (u1.clone(), un.clone(), fill[1].to_string())],
    ));
    for level in tier.pick(vec![1usize, 3, 6], vec![1, 2, 3, 4, 5, 6]) {
        let (h1, hn) = header_prefix(cfg, level);
        out.push((format!("h{level}"), format!("<h{level}>{x}</h{level}>"), vec![(h1, hn, x.to_string())]));
    }
    out.push(("dl/dd".to_string(), format!("<dl><dd>{x}</dd></dl>"), vec![("  ".to_string(), "  ".to_string(), x.to_string())]));
    // two term/definition pairs: the term lines stand unprefixed between the definition blocks
    out.push((
        "dl/2".to_string(),
        format!("<dl><dt>qf</dt><dd>{x}</dd><dt>qg</dt><dd>qz</dd></dl>"),
        vec![
            (String::new(), String::new(), "<dl><dt>qf</dt></dl>".to_string()),
            ("  ".to_string(), "  ".to_string(), x.to_string()),
            (String::new(), String::new(), "<dl><dt>qg</dt></dl>".to_string()),
            ("  ".to_string(), "  ".to_string(), "qz".to_string()),
        ],
    ));
    // ordered lists with an item that has no content at all: it renders no line but still
    // takes a number (and counts for the common marker width)
    for (st, empties) in [(1i64, vec![1usize]), (8, vec![2]), (-1, vec![0]), (9, vec![0, 1])] {
        let n = 3;
        let pre = ol_prefixes(cfg, st, n);
        let mut items = String::new();
        let mut parts = vec![];
        for k in 0..n {
            if empties.contains(&k) {
                items.push_str(if k % 2 == 0 { "<li></li>" } else { "<li><p></p></li>" });
                continue;
            }
            let c = if k == n - 1 || (k == 0 && !empties.contains(&0)) { x.to_string() } else { fill[k % 2].to_string() };
            items.push_str(&format!("<li>{c}</li>"));
            parts.push((pre[k].0.clone(), pre[k].1.clone(), c));
        }
        out.push((format!("ol start={st} with empty items {empties:?}"), format!("<ol start=\"{st}\">{items}</ol>"), parts));
    }
    // items that carry an id (a fragment marker is attached to the item): still one number each
    {
        let (st, n) = (8i64, 3usize);
        let pre = ol_prefixes(cfg, st, n);
        let mut items = String::new();
        let mut parts = vec![];
        for k in 0..n {
            let c = if k == n - 1 { x.to_string() } else { fill[k % 2].to_string() };
            items.push_str(&if k == 0 { format!("<li>{c}</li>") } else { format!("<li id=\"i{k}\">{c}</li>") });
            parts.push((pre[k].0.clone(), pre[k].1.clone(), c));
        }
        out.push(("ol start=8 with ids on the items".to_string(), format!("<ol start=\"{st}\">{items}</ol>"), parts));
    }
    let starts: Vec<Option<i64>> = vec![None, Some(-100), Some(-10), Some(-1), Some(0), Some(1), Some(8), Some(9), Some(98), Some(99), Some(999)];
    let counts: Vec<usize> = tier.pick(vec![1, 2, 3, 11], vec![1, 2, 3, 4, 10, 11, 12, 15]);
    for st in &starts {
        for &n in &counts {
            for pos in [0usize, n - 1] {
                if pos == 0 && n > 1 && n != 2 {
                    continue; // first position only for n = 1 and 2 (the last position covers the rest)
                }
                let start = st.unwrap_or(1);
                let pre = ol_prefixes(cfg, start, n);
                let mut items = String::new();
                let mut parts = vec![];
                for k in 0..n {
                    let c = if k == pos { x.to_string() } else { fill[k % 2].to_string() };
                    items.push_str(&format!("<li>{c}</li>"));
                    parts.push((pre[k].0.clone(), pre[k].1.clone(), c));
                }
                let attr = match st {
                    Some(s) => format!(" start=\"{s}\""),
                    None => String::new(),
                };
                out.push((format!("ol start={st:?} n={n} pos={pos}"), format!("<ol{attr}>{items}</ol>"), parts));
            }
        }
    }
    out
}

pub fn check(c: &Case, memo: &mut HashMap<(String, usize), Out<String>>, cx: &mut Cx) {
    let outer = cx.render(c.outer.as_bytes(), c.width, &c.cfg);
    cx.state(1 + c.parts.len() as u64);
    let os = match &outer {
        Out::Ok(s) => s,
        Out::TooNarrow => return,
        other => {
            let class = format!("{}: {}", c.wrapper.split(' ').next().unwrap_or(""), other.kind());
            cx.violation(&class, || json!({"case": serde_json::to_value(c).unwrap(), "observed": format!("{other:?}")}));
            return;
        }
    };
    let mut exp = String::new();
    let mut total_lines = 0;
    for (p1, pn, content) in &c.parts {
        let pw = sw(p1);
        if c.width <= pw {
            let class = format!("{}: outer rendering succeeded although the prefix leaves no room", c.wrapper.split(' ').next().unwrap_or(""));
            cx.violation(&class, || json!({"case": serde_json::to_value(c).unwrap(), "observed": os}));
            return;
        }
        let key = (content.clone(), c.width - pw);
        let inner = match memo.get(&key) {
            Some(r) => r.clone(),
            None => {
                let r = cx.render(content.as_bytes(), c.width - pw, &c.cfg);
                memo.insert(key, r.clone());
                r
            }
        };
        match inner {
            Out::Ok(s) => {
                for (i, l) in s.lines().enumerate() {
                    exp.push_str(if i == 0 { p1 } else { pn });
                    exp.push_str(l);
                    exp.push('\n');
                    total_lines += 1;
                }
            }
            other => {
                let class = format!("{}: content alone fails at the inner width although the block rendered", c.wrapper.split(' ').next().unwrap_or(""));
                cx.violation(&class, || json!({"case": serde_json::to_value(c).unwrap(), "inner_result": format!("{other:?}"), "outer": os}));
                return;
            }
        }
    }
    if total_lines > c.parts.len() {
        cx.nontrivial();
    }
    if &exp != os {
        let class = format!("{} ({}): outer rendering is not prefix + content rendered at the inner width", c.wrapper.split(' ').next().unwrap_or(""), match &c.cfg.dec { Dec::Plain => "plain", Dec::Rich => "rich", Dec::Trivial => "trivial", _ => "custom" });
        cx.violation(&class, || json!({"case": serde_json::to_value(c).unwrap(), "expected": exp, "observed": os,
            "as_unit_test": format!("#[test] fn c07_replay() {{ let s = {}.string_from_read({:?}.as_bytes(), {}).unwrap(); assert_eq!(s, {:?}); }}", c.cfg.as_rust(), c.outer, c.width, exp)}));
    }
}

struct S {
    tier: Tier,
    contents: Vec<String>,
    widths: Vec<usize>,
}
fn cfgs() -> Vec<Cfg> {
    vec![
        Cfg::rich(),
        Cfg::plain().with(Opt::Footnotes(false)),
        Cfg::trivial(),
        Cfg::rich().with(Opt::Pad),
        Cfg::rich().with(Opt::MaxWrap(5)),
    ]
}
impl Scope for S {
    fn units(&self) -> u64 {
        self.contents.len() as u64
    }
    fn run_unit(&self, unit: u64, cx: &mut Cx) {
        let x = &self.contents[unit as usize];
        for cfg in cfgs() {
            let mut memo = HashMap::new();
            for (name, outer, parts) in wrappers(x, &cfg, self.tier) {
                // the HTML parser must build exactly this tree (e.g. no heading inside a heading)
                if name.starts_with('h') && (x.contains("<p") || x.contains("<div") || x.contains("<ul") || x.contains("<ol") || x.contains("<blockquote") || x.contains("<h") || x.contains("<dl") || x.contains("<table") || x.contains("<pre")) {
                    continue;
                }
                for &width in &self.widths {
                    check(&Case { wrapper: name.clone(), outer: outer.clone(), parts: parts.clone(), width, cfg: cfg.clone() }, &mut memo, cx);
                }
            }
        }
    }
    fn info(&self) -> Info {
        Info {
            rule: "wrappers {blockquote, ul (1 and 3 items), h1..h6, dl/dd, dl with two term/definition pairs, ol with start in {absent,-100,-10,-1,0,1,8,9,98,99,999} and 1..15 items, ol whose items carry ids} around every content document of the grammar (so prefixes stack), x widths x {rich, plain without footnotes, trivial, rich+pad, rich+max_wrap_width}; every outer rendering is compared with the composition of the separately rendered contents; non-trivial = some item has a continuation line".into(),
            bounds: json!({"contents": self.contents.len(), "widths": self.widths, "configurations": cfgs().iter().map(|c| c.short()).collect::<Vec<_>>()}),
            assumptions: vec!["link footnotes are disabled (their numbering is global by design; C08 covers it)".into()],
        }
    }
}
impl Prop for P {
    fn id(&self) -> &'static str {
        "C07"
    }
    fn build(&self, tier: Tier) -> Box<dyn Scope> {
        let g = G { tables: true, pre: true, valid_only: true };
        let mut contents: Vec<String> = block_docs(tier.pick(1, 2), g).iter().map(|d| html(d)).collect();
        // inline text before and after a nested block inside the same item
        for extra in ["qa<ul><li>qb</li></ul>qc", "<p>qa</p>qb qc", "qa<blockquote>qb</blockquote>qc <em>qd</em>", "qa<ol><li>qb</li><li>qc</li></ol>", "<dl><dt>qa</dt><dd><p>qb</p></dd><dt>qc</dt><dd>qd</dd></dl>qe"] {
            contents.push(extra.to_string());
        }
        let widths: Vec<usize> = match tier {
            Tier::Quick => (3..=20).collect(),
            Tier::Thorough => (3..=40).chain([50, 64, 80, 100]).collect(),
        };
        Box::new(S { tier, contents, widths })
    }
    fn replay(&self, case: &Value, cx: &mut Cx) {
        let c: Case = serde_json::from_value(case.clone()).expect("C07 case");
        check(&c, &mut HashMap::new(), cx);
    }
}
