//! C13 Output does not depend on source formatting of collapsible whitespace.
//! Relation between two executions of the real code: render(r(d), w) == render(d, w) for
//! every source-level rewrite r of the whitespace / comments / neutral spans of d.
use crate::doc::*;
use crate::dom;
use crate::engine::*;
use crate::props::c11::max_prefix;
use crate::run::*;
use serde::{Deserialize, Serialize};
use serde_json::{json, Value};

pub struct P;
pub static C13: P = P;

pub const VARIANTS: [&str; 14] = [
    "identity",
    "whitespace run -> \\n\\t space",
    "whitespace run -> two spaces",
    "comment after each whitespace run",
    "comment before each whitespace run",
    "each text node wrapped in <span>",
    "each word wrapped in <span>",
    "newlines and indentation between block tags",
    "whitespace run -> form feed, CR, LF",
    "newline + tab indentation between block tags",
    "CR LF, tab, form feed, space between block tags",
    "a single tab between block tags",
    "each whitespace run wrapped in <span>",
    "each <br> wrapped in <span>",
];
/// Rewrites that split a text node into several (relevant for finding KF-C13-1).
fn splits_text(v: usize) -> bool {
    matches!(v, 3 | 4 | 6 | 12)
}

const BLOCKISH: &[&str] = &["p", "div", "ul", "ol", "li", "blockquote", "h3", "dl", "dt", "dd"];

pub fn ser_v(n: &N, out: &mut String, v: usize, inline_ctx: bool) {
    match n {
        N::C(c) => {
            out.push_str("<!--");
            out.push_str(c);
            out.push_str("-->");
        }
        N::T(s) => {
            let mut buf = String::new();
            let mut prev_ws = false;
            let mut word = String::new();
            let flush_word = |word: &mut String, buf: &mut String| {
                if !word.is_empty() {
                    if v == 6 {
                        buf.push_str("<span>");
                        buf.push_str(word);
                        buf.push_str("</span>");
                    } else {
                        buf.push_str(word);
                    }
                    word.clear();
                }
            };
            for c in s.chars() {
                if c.is_whitespace() {
                    flush_word(&mut word, &mut buf);
                    if !prev_ws {
                        buf.push_str(match v {
                            1 => "\n\t ",
                            2 => "  ",
                            3 => " <!-- c -->",
                            4 => "<!--c--> ",
                            8 => "\u{c}\r\n",
                            12 => "<span> </span>",
                            _ => " ",
                        });
                    }
                    prev_ws = true;
                } else {
                    prev_ws = false;
                    word.push(c);
                }
            }
            flush_word(&mut word, &mut buf);
            if v == 5 && !buf.is_empty() {
                out.push_str("<span>");
                out.push_str(&buf);
                out.push_str("</span>");
            } else {
                out.push_str(&buf);
            }
        }
        N::E(tag, attrs, kids) => {
            let tg = tag.as_str();
            let blockish = BLOCKISH.contains(&tg);
            if v == 13 && tg == "br" {
                out.push_str("<span><br></span>");
                return;
            }
            out.push('<');
            out.push_str(tag);
            for (k, val) in attrs {
                out.push_str(&format!(" {k}=\"{val}\""));
            }
            out.push('>');
            if VOID.contains(&tg) {
                return;
            }
            let container_only = ["ul", "ol", "dl"].contains(&tg);
            let indent = match v {
                7 => Some("\n  "),
                9 => Some("\n\t"),
                10 => Some("\r\n\t\u{c} "),
                11 => Some("\t"),
                _ => None,
            };
            if let (true, Some(ind)) = (container_only, indent) {
                out.push_str(ind);
            }
            for (i, k) in kids.iter().enumerate() {
                ser_v(k, out, v, !blockish);
                if let Some(ind) = indent {
                    if container_only {
                        out.push_str(ind);
                    } else if blockish && !inline_ctx && is_blockish(k) && kids.get(i + 1).map(is_blockish).unwrap_or(true) {
                        // white space between two block tags (or a block end tag and its
                        // parent's end tag) – never directly before inline text
                        out.push_str(ind);
                    }
                }
            }
            out.push_str(&format!("</{tag}>"));
        }
    }
}
fn is_blockish(n: &N) -> bool {
    matches!(n, N::E(t, _, _) if BLOCKISH.contains(&t.as_str()))
}
pub fn html_v(d: &[N], v: usize) -> String {
    let mut s = String::new();
    let indent = match v {
        7 => Some("\n"),
        9 => Some("\n\t"),
        10 => Some("\r\n\t\u{c} "),
        11 => Some("\t"),
        _ => None,
    };
    for (i, x) in d.iter().enumerate() {
        ser_v(x, &mut s, v, false);
        if let Some(ind) = indent {
            if is_blockish(x) && d.get(i + 1).map(is_blockish).unwrap_or(true) {
                s.push_str(ind);
            }
        }
    }
    s
}

#[derive(Serialize, Deserialize)]
struct Case {
    base: String,
    rewritten: String,
    variant: usize,
    width: usize,
    cfg: Cfg,
}

fn check(c: &Case, prefixed: bool, cx: &mut Cx) {
    let a = cx.render(c.base.as_bytes(), c.width, &c.cfg);
    let b = cx.render(c.rewritten.as_bytes(), c.width, &c.cfg);
    cx.state(2);
    if let Out::Ok(s) = &a {
        if s.lines().count() >= 2 {
            cx.nontrivial();
        }
    }
    if a == b {
        return;
    }
    // KF-C13-1: the minimum width of a block is estimated per text node, so a rewrite that
    // splits a text node can make a prefixed block fit where the unsplit source is refused.
    if splits_text(c.variant) && prefixed && a == Out::TooNarrow && b.is_ok() {
        cx.known("KF-C13-1", || json!({"case": serde_json::to_value(c).unwrap(), "base_result": format!("{a:?}"), "rewritten_result": format!("{b:?}")}));
        return;
    }
    let kind = match (&a, &b) {
        (Out::Ok(_), Out::Ok(_)) => "outputs differ",
        (Out::Panic(_), _) | (_, Out::Panic(_)) => "panic",
        _ => "success differs",
    };
    let class = format!("{}: {kind}", VARIANTS[c.variant]);
    cx.violation(&class, || json!({"case": serde_json::to_value(c).unwrap(), "base_result": format!("{a:?}"), "rewritten_result": format!("{b:?}"),
        "as_unit_test": format!("#[test] fn c13_replay() {{ let a = {}.string_from_read({:?}.as_bytes(), {}); let b = {}.string_from_read({:?}.as_bytes(), {}); assert_eq!(a.ok(), b.ok()); }}", c.cfg.as_rust(), c.base, c.width, c.cfg.as_rust(), c.rewritten, c.width)}));
}

struct S {
    docs: Vec<Vec<N>>,
    maxw: usize,
}
impl Scope for S {
    fn units(&self) -> u64 {
        self.docs.len() as u64
    }
    fn run_unit(&self, unit: u64, cx: &mut Cx) {
        let d = &self.docs[unit as usize];
        let base = html_v(d, 0);
        debug_assert_eq!(base, html(d));
        let prefixed = max_prefix(&dom::parse(base.as_bytes())) > 0;
        let is_valid = valid(d);
        for v in 1..VARIANTS.len() {
            if matches!(v, 7 | 9 | 10 | 11) && !is_valid {
                continue;
            }
            let rewritten = html_v(d, v);
            if rewritten == base {
                continue;
            }
            for width in 1..=self.maxw {
                for cfg in [Cfg::plain(), Cfg::rich()] {
                    check(&Case { base: base.clone(), rewritten: rewritten.clone(), variant: v, width, cfg }, prefixed, cx);
                }
            }
        }
    }
    fn info(&self) -> Info {
        Info {
            rule: "table-free, pre-free grammar documents x 11 source rewrites (whitespace-run substitutions, comments next to whitespace, span wrapping of text nodes and of words, indentation between block tags) x every width x {plain, rich}; each case is a pair of executions; non-trivial = the rewrite changed the bytes and the base rendering has >= 2 lines".into(),
            bounds: json!({"documents": self.docs.len(), "widths": format!("1..={}", self.maxw), "rewrites": VARIANTS[1..].to_vec()}),
            assumptions: vec!["comments are inserted only next to whitespace, as the property states".into()],
        }
    }
}
impl Prop for P {
    fn id(&self) -> &'static str {
        "C13"
    }
    fn build(&self, tier: Tier) -> Box<dyn Scope> {
        let mut docs = block_docs(tier.pick(2, 3), G { tables: false, pre: false, valid_only: false });
        // the same documents behind a block that renders nothing, and with an empty block
        // first inside list items / quotes
        // lists of 4..11 items (counters and marker widths must not depend on the white space
        // between the items)
        for n in [4usize, 5, 8, 9, 10, 11] {
            let items = |tag: &str| -> Vec<N> { (0..n).map(|k| e(tag, vec![t(&format!("q{} w", (b'a' + k as u8) as char))])).collect() };
            docs.push(vec![e("ol", items("li"))]);
            docs.push(vec![e("ul", items("li"))]);
            docs.push(vec![e("blockquote", vec![ea("ol", &[("start", "3")], items("li"))])]);
            let mut dl = vec![];
            for k in 0..n {
                dl.push(e(if k % 2 == 0 { "dt" } else { "dd" }, vec![t(&format!("q{}", (b'a' + k as u8) as char))]));
            }
            docs.push(vec![e("dl", dl)]);
        }
        let small = block_docs(1, G { tables: false, pre: false, valid_only: true });
        for d in &small {
            for lead in [e("h3", vec![]), e("p", vec![t(" ")]), e("p", vec![e("br", vec![])]), e("div", vec![e("span", vec![])])] {
                let mut v = vec![lead.clone()];
                v.extend(d.clone());
                docs.push(v);
                docs.push(vec![e("ul", vec![e("li", { let mut x = vec![lead.clone()]; x.extend(d.clone()); x })])]);
            }
        }
        Box::new(S { docs, maxw: tier.pick(14, 60) })
    }
    fn replay(&self, case: &Value, cx: &mut Cx) {
        let c: Case = serde_json::from_value(case.clone()).expect("C13 case");
        let prefixed = max_prefix(&dom::parse(c.base.as_bytes())) > 0;
        check(&c, prefixed, cx);
    }
}
