//! C09 Rich annotations mirror element nesting exactly.
//! Reference model: for every token character the annotation vector derived from its
//! ancestors in the oracle DOM (outermost first, colours of an element before its own
//! annotation), compared with the tags of the rich line output at every width.
use crate::doc::*;
use crate::dom::{self, Data, Dom};
use crate::engine::*;
use crate::run::*;
use crate::util::*;
use serde_json::{json, Value};
use std::collections::{BTreeMap, BTreeSet};

pub struct P;
pub static C09: P = P;

fn colour_dbg(hex: &str) -> Option<String> {
    let h = hex.trim().trim_start_matches('#');
    if h.len() != 6 {
        return None;
    }
    let v = u32::from_str_radix(h, 16).ok()?;
    Some(format!("Colour {{ r: {}, g: {}, b: {} }}", (v >> 16) & 255, (v >> 8) & 255, v & 255))
}
/// Colours declared on the element itself: style attribute (color / background-color with
/// #rrggbb), color= / bgcolor= attributes, and the class rules of the fixed sheet.
fn own_colours(d: &Dom, i: usize, sheet: &BTreeMap<&str, (&str, &str)>) -> (Option<String>, Option<String>) {
    let mut fg = None;
    let mut bg = None;
    // class rules come first in cascade order; inline declarations override them
    if let Some(cls) = d.attr(i, "class") {
        for c in cls.split_whitespace() {
            if let Some((prop, val)) = sheet.get(c) {
                if *prop == "color" {
                    fg = colour_dbg(val);
                } else {
                    bg = colour_dbg(val);
                }
            }
        }
    }
    if let Some(st) = d.attr(i, "style") {
        for decl in st.split(';') {
            if let Some((k, v)) = decl.split_once(':') {
                match k.trim() {
                    "color" => fg = colour_dbg(v).or(fg),
                    "background-color" => bg = colour_dbg(v).or(bg),
                    _ => {}
                }
            }
        }
    }
    if let Some(v) = d.attr(i, "color") {
        fg = colour_dbg(v).or(fg);
    }
    if let Some(v) = d.attr(i, "bgcolor") {
        bg = colour_dbg(v).or(bg);
    }
    (fg, bg)
}

pub const SHEET: &str = ".k{color:#111213} .l{background-color:#141516}";
fn sheet_map() -> BTreeMap<&'static str, (&'static str, &'static str)> {
    let mut m = BTreeMap::new();
    m.insert("k", ("color", "#111213"));
    m.insert("l", ("background-color", "#141516"));
    m
}

/// Expected annotation vector (Debug strings) of every token character.  `strict_pre`:
/// Preformat at the <pre>'s place in the ancestor chain; otherwise appended last.
pub fn expected(d: &Dom, strict_pre: bool) -> BTreeMap<char, Vec<String>> {
    expected_with_elems(d, strict_pre).0
}
/// As `expected`, plus the annotation vector in force inside every element (whether or not it
/// has text): the vectors a prefix, border or padding piece may legitimately carry.
pub fn expected_with_elems(d: &Dom, strict_pre: bool) -> (BTreeMap<char, Vec<String>>, BTreeSet<Vec<String>>) {
    let sheet = sheet_map();
    let mut out = BTreeMap::new();
    let mut elems = BTreeSet::new();
    type Acc<'a> = (&'a mut BTreeMap<char, Vec<String>>, &'a mut BTreeSet<Vec<String>>);
    fn go(d: &Dom, i: usize, stack: &mut Vec<String>, pre: bool, strict_pre: bool, sheet: &BTreeMap<&str, (&str, &str)>, acc: &mut Acc) {
        let (out, elems) = (&mut *acc.0, &mut *acc.1);
        match &d.nodes[i].data {
            Data::Text(t) => {
                for c in t.chars().filter(|c| is_tok(*c)) {
                    let mut v = stack.clone();
                    if pre && !strict_pre {
                        v.push("Preformat(false)".into());
                    }
                    out.insert(c, v);
                }
            }
            Data::Elem(l, html, _) => {
                if *html && dom::IGNORED.contains(&l.as_str()) {
                    return;
                }
                let before = stack.len();
                let (fg, bg) = own_colours(d, i, sheet);
                if let Some(c) = fg {
                    stack.push(format!("Colour({c})"));
                }
                if let Some(c) = bg {
                    stack.push(format!("BgColour({c})"));
                }
                let mut p = pre;
                if *html {
                    match l.as_str() {
                        "em" | "i" | "ins" | "dt" => stack.push("Emphasis".into()),
                        "strong" => stack.push("Strong".into()),
                        "s" | "del" => stack.push("Strikeout".into()),
                        "code" => stack.push("Code".into()),
                        "a" => {
                            if let Some(h) = d.attr(i, "href") {
                                stack.push(format!("Link({h:?})"));
                            }
                        }
                        "pre" => {
                            if strict_pre && !pre {
                                stack.push("Preformat(false)".into());
                            }
                            p = true;
                        }
                        "img" => {
                            let src = d.attr(i, "src").unwrap_or("");
                            let alt = d.attr(i, "alt").unwrap_or("");
                            if !src.is_empty() {
                                let mut v = stack.clone();
                                v.push(format!("Image({src:?})"));
                                if p && !strict_pre {
                                    v.push("Preformat(false)".into());
                                }
                                for c in alt.chars().filter(|c| is_tok(*c)) {
                                    out.insert(c, v.clone());
                                }
                            }
                            stack.truncate(before);
                            return;
                        }
                        _ => {}
                    }
                }
                elems.insert(stack.clone());
                for &k in &d.nodes[i].kids {
                    go(d, k, stack, p, strict_pre, sheet, acc);
                }
                stack.truncate(before);
            }
            Data::Doc => {
                for &k in &d.nodes[i].kids {
                    go(d, k, stack, pre, strict_pre, sheet, acc);
                }
            }
            _ => {}
        }
    }
    go(d, 0, &mut vec![], false, strict_pre, &sheet, &mut (&mut out, &mut elems));
    (out, elems)
}

fn norm(tags: &[String]) -> Vec<String> {
    tags.iter().filter(|t| *t != "Default").map(|t| if t == "Preformat(true)" { "Preformat(false)".to_string() } else { t.clone() }).collect()
}

pub fn check(html: &str, w: usize, cx: &mut Cx) {
    let cfg = Cfg::rich().with(Opt::DocCss).with(Opt::UserCss(SHEET.to_string()));
    let d = dom::parse(html.as_bytes());
    let (strict, elem_vectors) = expected_with_elems(&d, true);
    let lenient = expected(&d, false);
    let r = cx.render_lines(html.as_bytes(), w, &cfg);
    let rs = cx.render(html.as_bytes(), w, &cfg);
    cx.state(2);
    let lines = match &r {
        Out::Ok(l) => l,
        Out::TooNarrow => {
            if rs != Out::TooNarrow {
                cx.violation("lines_from_read and string_from_read disagree", || json!({"html": html, "width": w, "lines": format!("{r:?}"), "string": format!("{rs:?}")}));
            }
            return;
        }
        other => {
            cx.violation(other.kind(), || json!({"html": html, "width": w, "observed": format!("{other:?}")}));
            return;
        }
    };
    if rs.ok().map(|s| s.as_str()) != Some(lines_text(lines).as_str()) {
        cx.violation("concatenated pieces differ from the string output", || json!({"html": html, "width": w, "lines": lines_text(lines), "string": format!("{rs:?}")}));
    }
    // every prefix of an expected vector is a legitimate vector for prefixes / borders / padding
    let mut legit: BTreeSet<Vec<String>> = BTreeSet::new();
    legit.insert(vec![]);
    for v in lenient.values().chain(strict.values()).chain(elem_vectors.iter()) {
        for k in 0..=v.len() {
            legit.insert(v[..k].to_vec());
        }
    }
    // Preformat is appended after the stack (KF-C09-1), so inside <pre> a decoration emitted
    // between two elements carries a prefix of the chain plus Preformat
    if d.has_elem("pre") {
        for v in legit.clone() {
            let mut w = v.clone();
            w.push("Preformat(false)".into());
            legit.insert(w);
        }
    }
    let mut seen_multi = false;
    let mut known_pre = false;
    for l in lines {
        for p in l {
            if let Piece::Str(s, tags) = p {
                let got = norm(tags);
                if got.len() >= 2 {
                    seen_multi = true;
                }
                let mut any_tok = false;
                for c in s.chars() {
                    if let Some(x) = strict.get(&c) {
                        any_tok = true;
                        if &got != x {
                            if lenient.get(&c) == Some(&got) {
                                known_pre = true;
                                continue;
                            }
                            let class = format!("token annotations differ from the element nesting [{}]", shape_key(html.as_bytes()));
                            cx.violation(&class, || json!({"html": html, "width": w, "char": c.to_string(), "expected": x, "observed": tags, "line": line_text(l),
                                "as_unit_test": format!("#[test] fn c09_replay() {{ let ls = html2text::config::rich().use_doc_css().add_css({SHEET:?}).unwrap().lines_from_read({html:?}.as_bytes(), {w}).unwrap(); /* the piece containing {c:?} must be tagged {x:?} */ }}")}));
                            return;
                        }
                    }
                }
                if !any_tok && !legit.contains(&got) {
                    let class = format!("prefix/border/padding carries annotations of no enclosing element [{}]", shape_key(html.as_bytes()));
                    cx.violation(&class, || json!({"html": html, "width": w, "piece": s, "observed": tags, "line": line_text(l)}));
                    return;
                }
            }
        }
    }
    if seen_multi || lines.len() >= 2 {
        cx.nontrivial();
    }
    // "preformatted with its continuation flag": a line that was not produced by wrapping is
    // never a continuation.  If the whole document renders identically at a width at which
    // nothing can wrap, no piece may carry Preformat(true).  (Which pieces of a wrapped line
    // are continuations is C12's subject.)
    // (not for tables: a column's width comes from a size estimate, so a <pre> in a cell can
    // wrap at every overall width)
    if d.has_elem("pre") && !d.has_elem("table") && lines.iter().any(|l| l.iter().any(|p| matches!(p, Piece::Str(_, t) if t.iter().any(|x| x == "Preformat(true)")))) {
        let wide = cx.render(html.as_bytes(), 400, &cfg);
        cx.state(1);
        if wide.ok().map(|s| s.as_str()) == Some(lines_text(lines).as_str()) {
            cx.violation("Preformat(true) on a line that was not wrapped", || json!({"html": html, "width": w, "lines": format!("{lines:?}")}));
        }
    }
    if known_pre {
        cx.known("KF-C09-1", || json!({"html": html, "width": w}));
    }
}

/// pad_block_width: "padding carries only the annotations of the enclosing block's ancestors".
/// The trailing white space of a padded line must not carry an inline annotation (emphasis,
/// strong, link, code, strikeout) that some token of the same line is outside of.
pub fn check_pad(html: &str, w: usize, cx: &mut Cx) {
    let cfg = Cfg::rich().with(Opt::DocCss).with(Opt::UserCss(SHEET.to_string())).with(Opt::Pad);
    let d = dom::parse(html.as_bytes());
    let (strict, _) = expected_with_elems(&d, true);
    let r = cx.render_lines(html.as_bytes(), w, &cfg);
    cx.state(1);
    let lines = match &r {
        Out::Ok(l) => l,
        _ => return,
    };
    for l in lines {
        let mut chars: Vec<(char, Vec<String>)> = vec![];
        for p in l {
            if let Piece::Str(s, tags) = p {
                let got = norm(tags);
                for c in s.chars() {
                    chars.push((c, got.clone()));
                }
            }
        }
        let end = chars.iter().rposition(|(c, _)| !c.is_whitespace()).map(|i| i + 1).unwrap_or(0);
        let toks: Vec<&Vec<String>> = chars[..end].iter().filter_map(|(c, _)| strict.get(c)).collect();
        for (_, v) in &chars[end..] {
            let inline_last = v.last().map(|t| ["Emphasis", "Strong", "Link", "Code", "Strikeout"].iter().any(|k| t.starts_with(k))).unwrap_or(false);
            if inline_last && toks.iter().any(|t| t.len() < v.len() || t[..v.len()] != v[..]) {
                let class = format!("pad_block_width: padding carries an inline annotation that does not enclose the whole line [{}]", shape_key(html.as_bytes()));
                cx.violation(&class, || json!({"html": html, "width": w, "padding_tags": v, "line": line_text(l),
                    "as_unit_test": format!("#[test] fn c09_replay() {{ let ls = html2text::config::rich().use_doc_css().add_css({SHEET:?}).unwrap().pad_block_width().lines_from_read({html:?}.as_bytes(), {w}).unwrap(); /* the trailing padding must not be tagged {v:?} */ }}")}));
                return;
            }
        }
    }
}

type Wrap = (&'static str, &'static [(&'static str, &'static str)]);
const INL: [Wrap; 13] = [
    ("em", &[]),
    ("strong", &[]),
    ("del", &[]),
    ("code", &[]),
    ("a", &[("href", "/1")]),
    ("span", &[]),
    ("span", &[("style", "color:#010203")]),
    ("em", &[("style", "background-color:#040506")]),
    ("i", &[]),
    ("s", &[("class", "k")]),
    ("sup", &[]),
    ("font", &[("color", "#070809")]),
    ("strong", &[("class", "l"), ("style", "color:#0a0a0a")]),
];
fn wrap(wi: usize, kids: Vec<N>) -> N {
    ea(INL[wi].0, INL[wi].1, kids)
}
/// Inline runs over a chain of wrappers (nesting depth = chain length).
fn runs(chain: &[usize]) -> Vec<Vec<N>> {
    fn nest(chain: &[usize], inner: Vec<N>) -> Vec<N> {
        let mut cur = inner;
        for &wi in chain.iter().rev() {
            cur = vec![wrap(wi, cur)];
        }
        cur
    }
    let mut out = vec![];
    // aa W1[ bbb W2[ .. cc .. ] d ] eeee
    let inner = {
        let mut c = vec![t("cc")];
        for &wi in chain[1..].iter().rev() {
            c = vec![wrap(wi, c)];
        }
        c
    };
    let mut lvl0 = vec![t("bbb ")];
    lvl0.extend(inner);
    lvl0.push(t(" d"));
    out.push(vec![t("aa "), wrap(chain[0], lvl0), t(" eeee")]);
    // W1[ W2[ ffffff ] img ] h
    let mut v = nest(&chain[1..], vec![t("ffffff")]);
    v.push(ea("img", &[("src", "/s"), ("alt", "g")], vec![]));
    out.push(vec![wrap(chain[0], v), t("h")]);
    out
}
fn contexts(r: Vec<N>) -> Vec<Vec<N>> {
    let col = [("style", "color:#0a0b0c")];
    let bg = [("style", "background-color:#0d0e0f")];
    vec![
        vec![e("p", r.clone())],
        vec![e("ul", vec![e("li", r.clone())])],
        vec![e("blockquote", r.clone())],
        vec![e("h2", r.clone())],
        vec![e("table", vec![e("tr", vec![e("td", r.clone()), e("td", vec![t("z")])])])],
        vec![e("dl", vec![e("dt", r.clone()), e("dd", vec![t("z")])])],
        vec![e("dl", vec![e("dd", r.clone())])],
        vec![e("pre", r.clone())],
        vec![e("div", r.clone())],
        vec![ea("div", &col, vec![e("p", r.clone())]), e("p", vec![t("z")])],
        vec![ea("table", &col, vec![e("tr", vec![ea("td", &bg, r.clone())])]), e("p", vec![t("z")])],
        vec![e("del", vec![e("p", r.clone())]), e("p", vec![t("z")])],
        vec![ea("ul", &col, vec![ea("li", &bg, r.clone()), e("li", vec![t("z")])]), e("p", vec![t("y")])],
        vec![ea("ol", &[("class", "k")], vec![e("li", r.clone())]), e("p", vec![t("z")])],
        vec![ea("table", &[("bgcolor", "#212223")], vec![ea("tr", &col, vec![e("td", r.clone()), ea("td", &[("class", "l")], vec![t("z")])])]), e("p", vec![t("y")])],
        vec![ea("blockquote", &col, vec![ea("h2", &bg, r.clone())]), e("p", vec![t("z")])],
        vec![e("em", vec![e("ul", vec![e("li", r.clone())])]), e("p", vec![t("z")])],
        vec![e("ul", vec![e("li", vec![e("blockquote", vec![ea("pre", &bg, r.clone())])])]), e("p", vec![t("z")])],
        vec![e("table", vec![e("tr", vec![e("td", vec![ea("table", &col, vec![e("tr", vec![e("td", r.clone())])])]), e("td", vec![t("z")])])]), e("p", vec![t("y")])],
        // a styled cell inside an annotated context, followed by a sibling cell and by text in that context
        vec![e("em", vec![e("table", vec![e("tr", vec![ea("td", &col, r.clone()), e("td", vec![t("z")])])]), t("y")])],
        vec![ea("div", &bg, vec![e("table", vec![e("tr", vec![ea("td", &[("bgcolor", "#212223")], r.clone()), e("td", vec![t("z")])]), e("tr", vec![e("td", vec![t("y")]), e("td", vec![t("w")])])]), e("p", vec![t("v")])])],
        // nested table inside a coloured cell (e-mail style markup)
        vec![e("table", vec![e("tr", vec![ea("td", &col, vec![e("table", vec![e("tr", vec![ea("td", &bg, r.clone()), e("td", vec![t("z")])])]), t("y")]), e("td", vec![t("w")])])]), e("p", vec![t("v")])],
        vec![e("strong", vec![e("ul", vec![ea("li", &col, r.clone()), e("li", vec![t("z")])]), t("y")])],
        // an annotating inline element whose last child is a block (the parser keeps a <pre>
        // inside an inline element in a list item, a cell or a div), followed by more text
        vec![e("ul", vec![e("li", vec![e("em", vec![t("z"), e("pre", r.clone())]), t(" y")]), e("li", vec![t("w")])])],
        vec![e("div", vec![ea("a", &[("href", "/9")], vec![e("strong", vec![t("z"), e("pre", vec![t("v")])])]), t("y "), e("code", r.clone())])],
        vec![e("table", vec![e("tr", vec![e("td", vec![e("del", vec![e("pre", r.clone())]), t("y")]), e("td", vec![t("w")])])]), e("p", vec![t("v")])],
        // a coloured row without any content (spacer row) before the row holding the run
        vec![e("table", vec![ea("tr", &col, vec![e("td", vec![]), e("td", vec![t(" ")])]), e("tr", vec![e("td", r.clone()), e("td", vec![t("z")])]), ea("tr", &bg, vec![e("td", vec![])]), e("tr", vec![e("td", vec![t("y")])])]), e("p", vec![t("w")])],
        // pre with several lines: a long first line, the next line starting with the inline run
        vec![e("pre", { let mut v = vec![t("zzzzzzzzzzzzzzzzzzzzzzzz\n")]; v.extend(r.clone()); v.push(t("\nyy")); v })],
    ]
}

struct S {
    chains: Vec<Vec<usize>>,
    maxw: usize,
}
impl Scope for S {
    fn units(&self) -> u64 {
        self.chains.len() as u64
    }
    fn run_unit(&self, unit: u64, cx: &mut Cx) {
        let chain = &self.chains[unit as usize];
        for r in runs(chain) {
            for d in contexts(r) {
                let h = html(&d);
                for w in 1..=self.maxw {
                    check(&h, w, cx);
                    check_pad(&h, w, cx);
                }
            }
        }
    }
    fn info(&self) -> Info {
        Info {
            rule: "inline nestings (every chain of wrappers up to the stated depth over 13 wrappers incl. links, images, sup, inline-style / class / color= colours) in two run shapes x 28 block contexts (p, li, quote, heading, table cell, dt, dd, pre, div, coloured div/table/tr/td/ul/li/ol/blockquote, list inside em, pre in quote in list, nested table, styled cells inside annotated contexts followed by siblings) x every width (so every token is also seen wrapped); expected vectors from the oracle DOM; non-trivial = some piece carries >= 2 annotations or the output has >= 2 lines".into(),
            bounds: json!({"chains": self.chains.len(), "max_chain_depth": self.chains.iter().map(|c| c.len()).max(), "wrappers": INL.iter().map(|w| format!("{}{:?}", w.0, w.1)).collect::<Vec<_>>(), "contexts": 28, "widths": format!("1..={}", self.maxw)}),
            assumptions: vec!["RichAnnotation::Default (pushed for <sup>) is treated as neutral".into(), "Preformat's continuation flag is C12's subject and is ignored here".into(), "colours come from single uncontested declarations (the cascade is C19's subject)".into()],
        }
    }
}
impl Prop for P {
    fn id(&self) -> &'static str {
        "C09"
    }
    fn build(&self, tier: Tier) -> Box<dyn Scope> {
        let n = INL.len();
        let mut chains: Vec<Vec<usize>> = vec![];
        for a in 0..n {
            chains.push(vec![a]);
        }
        for a in 0..n {
            for b in 0..n {
                chains.push(vec![a, b]);
            }
        }
        if tier == Tier::Thorough {
            for a in 0..n {
                for b in 0..n {
                    for c in 0..n {
                        chains.push(vec![a, b, c]);
                    }
                }
            }
        }
        Box::new(S { chains, maxw: tier.pick(24, 60) })
    }
    fn replay(&self, case: &Value, cx: &mut Cx) {
        check(case["html"].as_str().unwrap_or(""), case["width"].as_u64().unwrap_or(1) as usize, cx);
        check_pad(case["html"].as_str().unwrap_or(""), case["width"].as_u64().unwrap_or(1) as usize, cx);
    }
}
