//! C20 Selectors match exactly the elements CSS says they match.
//! Exhaustive over selectors (compounds x combinators, selector lists, every
//! :nth-child(an+b)) on documents with deep nesting, repeated classes and mixed children,
//! against an independent reference matcher over the oracle DOM.
use crate::dom::{self, Data, Dom};
use crate::engine::*;
use crate::run::*;
use crate::util::*;
use serde::{Deserialize, Serialize};
use serde_json::{json, Value};
use std::collections::BTreeSet;

pub struct P;
pub static C20: P = P;

#[derive(Clone, Debug, Serialize, Deserialize)]
pub enum Simple {
    Tag(String),
    Class(String),
    Id(String),
    Star,
    Nth(i32, i32),
}
#[derive(Clone, Debug, Serialize, Deserialize, PartialEq)]
pub enum Comb {
    Desc,
    Child,
}
#[derive(Clone, Debug, Serialize, Deserialize)]
pub struct Sel {
    first: Vec<Simple>,
    rest: Vec<(Comb, Vec<Simple>)>,
}
pub fn nth_str(a: i32, b: i32) -> String {
    let astr = match a {
        0 => String::new(),
        1 => "n".to_string(),
        -1 => "-n".to_string(),
        _ => format!("{a}n"),
    };
    if a == 0 {
        format!(":nth-child({b})")
    } else if b == 0 {
        format!(":nth-child({astr})")
    } else {
        format!(":nth-child({astr}{b:+})")
    }
}
fn simple_str(s: &Simple) -> String {
    match s {
        Simple::Tag(t) => t.clone(),
        Simple::Class(c) => format!(".{c}"),
        Simple::Id(i) => format!("#{i}"),
        Simple::Star => "*".into(),
        Simple::Nth(a, b) => nth_str(*a, *b),
    }
}
fn comp_str(c: &[Simple]) -> String {
    c.iter().map(simple_str).collect()
}
pub fn sel_str(s: &Sel) -> String {
    let mut o = comp_str(&s.first);
    for (c, comp) in &s.rest {
        o += match c {
            Comb::Desc => " ",
            Comb::Child => " > ",
        };
        o += &comp_str(comp);
    }
    o
}

pub fn nth_matches(a: i32, b: i32, i: i32) -> bool {
    let d = i as i64 - b as i64;
    let a = a as i64;
    if a == 0 {
        d == 0
    } else {
        d % a == 0 && d / a >= 0
    }
}
fn m_simple(s: &Simple, d: &Dom, i: usize) -> bool {
    let Some((name, _html, _)) = d.elem(i) else { return false };
    match s {
        Simple::Tag(t) => name == t,
        // the explored documents have no doctype, i.e. are parsed in quirks mode, where CSS
        // matches class and id names ASCII case-insensitively
        Simple::Class(c) => d.attr(i, "class").map(|v| v.split_whitespace().any(|x| x.eq_ignore_ascii_case(c))).unwrap_or(false),
        Simple::Id(x) => d.attr(i, "id").map(|v| v.eq_ignore_ascii_case(x)).unwrap_or(false),
        Simple::Star => true,
        Simple::Nth(a, b) => d.nodes[i].parent.is_some() && nth_matches(*a, *b, d.elem_index(i) as i32),
    }
}
fn m_comp(c: &[Simple], d: &Dom, i: usize) -> bool {
    c.iter().all(|s| m_simple(s, d, i))
}
/// Reference matcher: right to left, explicit ancestor search for the descendant combinator.
pub fn matches(sel: &Sel, d: &Dom, i: usize) -> bool {
    let mut comps: Vec<&Vec<Simple>> = vec![&sel.first];
    let mut combs: Vec<&Comb> = vec![];
    for (c, comp) in &sel.rest {
        combs.push(c);
        comps.push(comp);
    }
    fn go(k: usize, i: usize, comps: &[&Vec<Simple>], combs: &[&Comb], d: &Dom) -> bool {
        if !m_comp(comps[k], d, i) {
            return false;
        }
        if k == 0 {
            return true;
        }
        let parent_elem = |x: usize| d.nodes[x].parent.filter(|&p| matches!(d.nodes[p].data, Data::Elem(..)));
        match combs[k - 1] {
            Comb::Child => parent_elem(i).map(|p| go(k - 1, p, comps, combs, d)).unwrap_or(false),
            Comb::Desc => {
                let mut p = parent_elem(i);
                while let Some(pp) = p {
                    if go(k - 1, pp, comps, combs, d) {
                        return true;
                    }
                    p = parent_elem(pp);
                }
                false
            }
        }
    }
    go(comps.len() - 1, i, &comps, &combs, d)
}

/// Token characters that lie inside some element matched by one of the selectors.
fn expected_tokens(d: &Dom, sels: &[Sel], skip_row_groups: bool) -> BTreeSet<char> {
    let mut out = BTreeSet::new();
    for i in 0..d.nodes.len() {
        if skip_row_groups && (d.is_html(i, "tbody") || d.is_html(i, "thead") || d.is_html(i, "tfoot")) {
            continue;
        }
        if d.elem(i).is_some() && sels.iter().any(|s| matches(s, d, i)) {
            for c in dom::visible_text_of(d, i).chars().filter(|c| is_tok(*c)) {
                out.insert(c);
            }
        }
    }
    out
}
fn all_tokens(d: &Dom) -> BTreeSet<char> {
    dom::visible_text(d, &|_| false).chars().filter(|c| is_tok(*c)).collect()
}

#[derive(Serialize, Deserialize)]
struct Case {
    doc: String,
    /// selector list (union)
    sels: Vec<Sel>,
    /// literal selector text to use instead of the canonical serialisation
    text: Option<String>,
}
fn check(c: &Case, cx: &mut Cx) {
    let seltext = c.text.clone().unwrap_or_else(|| c.sels.iter().map(sel_str).collect::<Vec<_>>().join(", "));
    let css = format!("{seltext} {{ color: #010203; }}");
    let d = dom::parse(c.doc.as_bytes());
    let exp = expected_tokens(&d, &c.sels, false);
    let all = all_tokens(&d);
    let cfg = Cfg::rich().with(Opt::UserCss(css.clone()));
    let r = cx.render_lines(c.doc.as_bytes(), 200, &cfg);
    cx.state(c.sels.iter().map(|s| 1 + s.rest.len() as u64).sum());
    if !exp.is_empty() && exp != all {
        cx.nontrivial();
    }
    let got: Option<BTreeSet<char>> = match &r {
        Out::Ok(lines) => {
            let mut g = BTreeSet::new();
            for l in lines {
                for p in l {
                    if let Piece::Str(s, tags) = p {
                        if tags.iter().any(|t| t.starts_with("Colour(")) {
                            g.extend(s.chars().filter(|ch| is_tok(*ch)));
                        }
                    }
                }
            }
            Some(g)
        }
        _ => None,
    };
    if got.as_ref() != Some(&exp) {
        // KF-C20-1: declarations matched on a row group (tbody/thead/tfoot) are dropped when
        // the rows are moved into the table
        if got.as_ref() == Some(&expected_tokens(&d, &c.sels, true)) {
            cx.known("KF-C20-1", || json!({"case": serde_json::to_value(c).unwrap(), "css": css}));
            return;
        }
        let flat: Vec<&Simple> = c.sels.iter().flat_map(|s| s.first.iter().chain(s.rest.iter().flat_map(|(_, c)| c.iter()))).collect();
        let mut shape = String::new();
        if flat.iter().any(|x| matches!(x, Simple::Star)) {
            shape += "star ";
        }
        if flat.iter().any(|x| matches!(x, Simple::Nth(..))) {
            shape += "nth-child ";
        }
        if c.sels.len() > 1 {
            shape += "list ";
        }
        let ncomb: usize = c.sels.iter().map(|s| s.rest.len()).max().unwrap_or(0);
        let class = format!("matched set differs from the reference matcher ({shape}combinators={ncomb}{})", if got.is_none() { ", rendering/add_css failed" } else { "" });
        cx.violation(&class, || json!({"case": serde_json::to_value(c).unwrap(), "css": css, "expected_tokens": exp.iter().collect::<String>(), "observed_tokens": got.as_ref().map(|g| g.iter().collect::<String>()), "result": if got.is_none() { format!("{r:?}") } else { String::new() },
            "as_unit_test": format!("#[test] fn c20_replay() {{ let ls = html2text::config::rich().add_css({css:?}).unwrap().lines_from_read({:?}.as_bytes(), 200).unwrap(); /* exactly the tokens {:?} must carry a Colour annotation */ }}", c.doc, exp.iter().collect::<String>())}));
    }
}

pub fn docs(tier: Tier) -> Vec<String> {
    let mut v = vec![
        "<div class=a><p class=b>k<span class=a id=i>l</span>m</p><p>n</p><div class=b><p class=\"a b\"><span>o</span></p></div></div><p class=a>q</p>".to_string(),
        "<ul><li class=a>r</li><li>s</li><li class=a>t</li><li>u</li><li class=a>v</li><li>w</li></ul>".to_string(),
        "<div>k<div class=a>l<div class=b>m<span class=a>n</span></div></div>o</div>".to_string(),
    ];
    let _ = tier;
    {
        v.extend(
            [
                // depth 5, the same class repeated on an ancestor chain (descendant matching must back-track)
                "<div class=a>k<div class=b>l<div class=a>m<div class=b>n<p class=a>o<span class=b>q</span></p></div></div></div></div>",
                // mixed text / comment / element children (indices count elements only)
                "<div>k<!-- c --><p>l</p>m<!-- c --><p class=a>n</p><span>o</span>q<p>r</p><!-- c --></div>",
                "<ul><li>r<ul><li class=a>s</li><li>t<span class=b>u</span></li></ul></li><li class=b>v</li></ul>",
                "<div class=\"a b\" id=i><span>k</span><span class=a>l</span><span class=b>m</span><span class=\"b a\">n</span></div>",
                "<p>k</p><p class=a>l</p><div><p>m</p><p class=a>n<span>o</span></p></div><div class=a><div><span>q</span></div></div>",
                "<div><div><div><span class=a>k</span></div><span>l</span></div><span class=b>m</span></div>",
                "<table><tr><td class=a>k</td><td>l</td></tr><tr class=b><td>m</td><td class=a><span>n</span></td></tr></table>",
                "<div id=i><p>k</p></div><div><p id=j>l</p><p>m</p></div>",
                "<li>k</li><span class=a><span class=a><span class=a>l</span>m</span>n</span>",
                // an element directly inside <table> is foster-parented in front of the table
                "<div class=b><p>k</p><table><span class=a>l</span><tr><td>m</td><td class=a>n</td></tr></table><p>o</p></div>",
                // class lists separated by ASCII white space other than a single space (tab, newline, form feed; leading / trailing)
                "<div class=\"a\tb\"><span class=\"\nb\n\">k</span><p class=\"x\u{c}a\">l<span class=\"b\t\ta\n\">m</span></p><p class=\"ab\">n</p><p class=\" a  b \">o</p></div>",
            ]
            .iter()
            .map(|s| s.to_string()),
        );
    }
    v
}
pub fn compounds() -> Vec<Vec<Simple>> {
    let t = |s: &str| Simple::Tag(s.to_string());
    let c = |s: &str| Simple::Class(s.to_string());
    vec![
        vec![t("p")],
        vec![t("div")],
        vec![t("span")],
        vec![t("li")],
        vec![Simple::Star],
        vec![c("a")],
        vec![c("b")],
        vec![Simple::Id("i".into())],
        vec![t("p"), c("a")],
        vec![c("a"), c("b")],
        vec![t("li"), Simple::Nth(2, 1)],
        vec![Simple::Nth(0, 2)],
        vec![Simple::Nth(-1, 3)],
        vec![t("div"), Simple::Nth(1, 0)],
    ]
}

struct S {
    tier: Tier,
    docs: Vec<String>,
    comps: Vec<Vec<Simple>>,
    /// unit space: [selectors of 1..=maxc compounds][selector lists][nth-child sweep]
    sel_off: Vec<u64>,
    n_lists: u64,
    n_nth: u64,
}
const NTH_RANGE: i32 = 5;
/// Characters a class or id name may consist of (after the first letter).
const IDENT_CHARS: &str = "abcdefghijklmnopqrstuvwxyzABCDEFGHIJKLMNOPQRSTUVWXYZ0123456789_-";
impl S {
    fn selector(&self, len: usize, code: u64) -> Sel {
        // digits: compound_1, (comb_2, compound_2), ...
        let nc = self.comps.len();
        let mut radix = vec![nc];
        for k in 1..len {
            radix.push(2);
            // the third and later compounds come from the first 8 of the menu
            radix.push(if k >= 2 { 8.min(nc) } else { nc });
        }
        let dg = decode(code, &radix);
        let mut sel = Sel { first: self.comps[dg[0]].clone(), rest: vec![] };
        for k in 1..len {
            let comb = if dg[2 * k - 1] == 0 { Comb::Desc } else { Comb::Child };
            sel.rest.push((comb, self.comps[dg[2 * k]].clone()));
        }
        sel
    }
    fn n_selectors(&self, len: usize) -> u64 {
        let nc = self.comps.len() as u64;
        match len {
            1 => nc,
            2 => nc * 2 * nc,
            n => nc * 2 * nc * (2 * 8u64.min(nc)).pow(n as u32 - 2),
        }
    }
}
impl Scope for S {
    fn units(&self) -> u64 {
        *self.sel_off.last().unwrap() + self.n_lists + self.n_nth + IDENT_CHARS.len() as u64
    }
    fn run_unit(&self, unit: u64, cx: &mut Cx) {
        let nsel = *self.sel_off.last().unwrap();
        if unit < nsel {
            let li = (1..self.sel_off.len()).find(|&i| unit < self.sel_off[i]).unwrap();
            let sel = self.selector(li, unit - self.sel_off[li - 1]);
            for d in &self.docs {
                check(&Case { doc: d.clone(), sels: vec![sel.clone()], text: None }, cx);
            }
        } else if unit < nsel + self.n_lists {
            // selector lists of two members: every pair of (single compound | two-compound) selectors from a reduced menu
            let u = unit - nsel;
            let n1 = self.n_selectors(1) + self.n_selectors(2).min(60);
            let a = u % n1;
            let b = u / n1;
            let pick = |x: u64| if x < self.n_selectors(1) { self.selector(1, x) } else { self.selector(2, (x - self.n_selectors(1)) * 7 % self.n_selectors(2)) };
            for d in &self.docs {
                check(&Case { doc: d.clone(), sels: vec![pick(a), pick(b)], text: None }, cx);
            }
        } else if unit >= nsel + self.n_lists + self.n_nth {
            // class and id names containing each identifier character (inside and at the end)
            let c = IDENT_CHARS.chars().nth((unit - nsel - self.n_lists - self.n_nth) as usize).unwrap();
            for name in [format!("k{c}z"), format!("k{c}"), format!("k{c}{c}9")] {
                let doc = format!("<div><p class=\"{name}\" id=\"i{name}\">a</p><p class=\"kz\">b</p><span class=\"x {name}\">c</span><p id=\"{name}\">d</p></div>");
                let one = |x: Vec<Simple>| Sel { first: x, rest: vec![] };
                for sels in [
                    vec![one(vec![Simple::Class(name.clone())])],
                    vec![one(vec![Simple::Id(format!("i{name}"))])],
                    vec![one(vec![Simple::Tag("p".into()), Simple::Class(name.clone())])],
                    vec![one(vec![Simple::Id(name.clone())]), one(vec![Simple::Class("kz".into())])],
                    vec![Sel { first: vec![Simple::Tag("div".into())], rest: vec![(Comb::Desc, vec![Simple::Class(name.clone())])] }],
                ] {
                    check(&Case { doc: doc.clone(), sels, text: None }, cx);
                }
            }
        } else {
            // every :nth-child(an+b), a,b in -5..=5, plus odd / even / spacing variants, on sibling
            // lists of 0..8 elements interleaved with text nodes and comments
            let u = unit - nsel - self.n_lists;
            let span = (2 * NTH_RANGE + 1) as u64;
            let a = (u % span) as i32 - NTH_RANGE;
            let b = (u / span) as i32 - NTH_RANGE;
            for n in 0..=8usize {
                let items: String = (0..n).map(|i| format!("{}<li>{}</li>{}", if i % 3 == 1 { "x" } else { "" }, (b'a' + i as u8) as char, if i % 2 == 0 { "<!-- c -->" } else { " " })).collect();
                let doc = format!("<ul>y{items}</ul>");
                let doc = doc.replace('x', "").replace('y', ""); // text directly in <ul> would be visible text outside li: keep it out
                let doc2 = format!("<div>{}</div>", (0..n).map(|i| format!("<p>{}</p>{}", (b'a' + i as u8) as char, if i % 2 == 0 { "z<!-- c -->" } else { "" })).collect::<String>().replace('z', " "));
                for dd in [doc, doc2] {
                    let tag = if dd.starts_with("<ul") { "li" } else { "p" };
                    let sel = Sel { first: vec![Simple::Tag(tag.into()), Simple::Nth(a, b)], rest: vec![] };
                    check(&Case { doc: dd.clone(), sels: vec![sel.clone()], text: None }, cx);
                    // alternative spellings of the same coefficients
                    let mut alts: Vec<String> = vec![];
                    if a == 2 && b == 1 {
                        alts.push(format!("{tag}:nth-child(odd)"));
                    }
                    if a == 2 && b == 0 {
                        alts.push(format!("{tag}:nth-child(even)"));
                    }
                    if a != 0 && b != 0 {
                        let astr = match a { 1 => "n".to_string(), -1 => "-n".to_string(), _ => format!("{a}n") };
                        alts.push(format!("{tag}:nth-child( {astr} {}{} )", if b < 0 { "-" } else { "+" }, b.abs()));
                    }
                    if a == 0 {
                        alts.push(format!("{tag}:nth-child(0n{b:+})"));
                        if b > 0 {
                            alts.push(format!("{tag}:nth-child(+{b})"));
                        }
                    }
                    if a == 1 {
                        alts.push(format!("{tag}:nth-child(+n{})", if b == 0 { String::new() } else { format!("{b:+}") }));
                        alts.push(format!("{tag}:nth-child(1n{})", if b == 0 { String::new() } else { format!("{b:+}") }));
                    }
                    for t in alts {
                        check(&Case { doc: dd.clone(), sels: vec![sel.clone()], text: Some(t) }, cx);
                    }
                }
            }
        }
    }
    fn info(&self) -> Info {
        Info {
            rule: "all selectors of up to maxc compounds over 14 compounds (element, *, classes, id, element.class, .a.b, three :nth-child forms) with both combinators (third and later compounds from the first 8), selector lists of two members, class and id names containing each of the 64 identifier characters, and every :nth-child(an+b) with a,b in -5..=5 (plus odd/even/spacing/sign spellings) on sibling lists of 0..8 elements interleaved with text and comments; on documents with nesting to depth 5, repeated classes on ancestor chains and mixed children; non-trivial = the expected match set is neither empty nor everything".into(),
            bounds: json!({"documents": self.docs.len(), "compounds": self.comps.iter().map(|c| comp_str(c)).collect::<Vec<_>>(), "max_compounds": self.sel_off.len() - 1, "selectors": self.sel_off.last(), "selector_lists": self.n_lists, "nth_child_pairs": self.n_nth, "tier": self.tier.name()}),
            assumptions: vec!["tokens are unique letters per document, so the set of coloured letters identifies the matched elements' subtrees".into()],
        }
    }
}
impl Prop for P {
    fn id(&self) -> &'static str {
        "C20"
    }
    fn build(&self, tier: Tier) -> Box<dyn Scope> {
        let mut s = S { tier, docs: docs(tier), comps: compounds(), sel_off: vec![0], n_lists: 0, n_nth: ((2 * NTH_RANGE + 1) * (2 * NTH_RANGE + 1)) as u64 };
        for len in 1..=tier.pick(3, 4) {
            let n = s.n_selectors(len);
            s.sel_off.push(s.sel_off.last().unwrap() + n);
        }
        let n1 = s.n_selectors(1) + s.n_selectors(2).min(60);
        s.n_lists = n1 * n1;
        Box::new(s)
    }
    fn replay(&self, case: &Value, cx: &mut Cx) {
        check(&serde_json::from_value(case.clone()).expect("C20 case"), cx);
    }
}
