//! C03 Document text is preserved: nothing lost, duplicated, reordered or invented.
//! Reference model = visible-text extraction from the harness's own DOM (independent
//! html5ever TreeSink), compared with the token characters of the output.
use crate::configs::configs;
use crate::doc::*;
use crate::dom::{self, Dom};
use crate::engine::*;
use crate::mutate::token_mutants;
use crate::run::*;
use crate::universe::*;
use crate::util::*;
use serde_json::{json, Value};

pub struct P;
pub static C03: P = P;

fn allowed(o: &Opt) -> bool {
    // hiding by CSS is C18's subject
    !matches!(o, Opt::DocCss | Opt::UserCss(_) | Opt::AgentCss(_))
}

/// What the oracle DOM says about a document.
pub struct Expect {
    /// all visible non-whitespace, non-control characters, in order
    pub all: String,
    /// the same with children of <ol> that are not <li>, of <dl> that are not <dt>/<dd> left
    /// out (finding KF-C03-1), None if equal to `all`
    pub lenient_lists: Option<String>,
    /// the same as `all` with table children that lie *between* two row groups (a caption
    /// between two tbody elements) moved behind the table's last row (finding KF-C03-3),
    /// None if the document has no such child
    pub caption_between_moved: Option<String>,
    pub has_table: bool,
    pub href_has_tokens: bool,
    pub has_sup: bool,
}
fn visible_chars(s: &str) -> String {
    s.chars().filter(|c| !c.is_whitespace() && !c.is_control()).collect()
}
/// Visible text with non-row children of a table that stand between two row-bearing
/// children deferred to the end of the table.  Returns None if there is no such child.
fn moved_captions(dom: &Dom) -> Option<String> {
    use crate::dom::Data;
    fn has_tr(d: &Dom, i: usize) -> bool {
        d.is_html(i, "tr") || d.nodes[i].kids.iter().any(|&k| has_tr(d, k))
    }
    fn go(d: &Dom, i: usize, out: &mut String, moved: &mut bool) {
        match &d.nodes[i].data {
            Data::Text(t) => out.push_str(t),
            Data::Elem(l, html, at) => {
                if *html && dom::IGNORED.contains(&l.as_str()) {
                    return;
                }
                if *html && l == "img" {
                    let src = at.iter().find(|(k, _)| k == "src").map(|(_, v)| v.as_str()).unwrap_or("");
                    let alt = at.iter().find(|(k, _)| k == "alt").map(|(_, v)| v.as_str()).unwrap_or("");
                    if !src.is_empty() {
                        out.push_str(alt);
                    }
                    return;
                }
                if *html && l == "table" {
                    let kids = &d.nodes[i].kids;
                    let bearing: Vec<bool> = kids.iter().map(|&k| has_tr(d, k)).collect();
                    let first = bearing.iter().position(|&b| b);
                    let last = bearing.iter().rposition(|&b| b);
                    let mut deferred = vec![];
                    for (idx, &k) in kids.iter().enumerate() {
                        let between = matches!((first, last), (Some(f), Some(l)) if f < idx && idx < l) && !bearing[idx];
                        if between && !visible_chars(&dom::visible_text_of(d, k)).is_empty() {
                            deferred.push(k);
                            *moved = true;
                        } else {
                            go(d, k, out, moved);
                        }
                    }
                    for k in deferred {
                        go(d, k, out, moved);
                    }
                    return;
                }
                for &k in &d.nodes[i].kids {
                    go(d, k, out, moved);
                }
            }
            Data::Doc => {
                for &k in &d.nodes[i].kids {
                    go(d, k, out, moved);
                }
            }
            _ => {}
        }
    }
    let mut out = String::new();
    let mut moved = false;
    go(dom, 0, &mut out, &mut moved);
    if moved {
        Some(visible_chars(&out))
    } else {
        None
    }
}
pub fn expect(dom: &Dom) -> Expect {
    let strict = dom::visible_text(dom, &|_| false);
    let stray = |i: usize| -> bool {
        match dom.nodes[i].parent {
            Some(p) if dom.is_html(p, "ol") => !dom.is_html(i, "li"),
            Some(p) if dom.is_html(p, "dl") => !(dom.is_html(i, "dt") || dom.is_html(i, "dd")),
            _ => false,
        }
    };
    let l1 = dom::visible_text(dom, &stray);
    let all = visible_chars(&strict);
    let l1 = visible_chars(&l1);
    let href_has_tokens = (0..dom.nodes.len()).any(|i| dom.is_html(i, "a") && dom.attr(i, "href").map(|h| h.chars().any(|c| !c.is_ascii_digit() && c != '/')).unwrap_or(false));
    Expect {
        lenient_lists: if l1 != all { Some(l1.clone()) } else { None },
        caption_between_moved: moved_captions(dom),
        all,
        has_table: dom.has_elem("table"),
        href_has_tokens,
        has_sup: dom.has_elem("sup"),
    }
}

fn sorted(s: &str) -> Vec<char> {
    let mut v: Vec<char> = s.chars().collect();
    v.sort();
    v
}

pub fn check_one(html: &[u8], w: usize, cfg: &Cfg, ex: &Expect, cx: &mut Cx) {
    let r = cx.render(html, w, cfg);
    cx.state(1);
    let s = match &r {
        Out::Ok(s) => s,
        Out::TooNarrow | Out::CssErr => return,
        other => {
            let class = format!("{}: {}", other.kind(), match other { Out::Panic(m) | Out::OtherErr(m) => m.clone(), _ => String::new() });
            cx.violation(&class, || json!({"case": case_json(html, w, cfg), "observed": format!("{other:?}")}));
            return;
        }
    };
    let footnotes = match &cfg.dec {
        Dec::Plain => !cfg.has(|o| matches!(o, Opt::Footnotes(false))),
        _ => cfg.has(|o| matches!(o, Opt::Footnotes(true))),
    };
    if footnotes && ex.href_has_tokens {
        cx.stat("skipped: footnote targets contain text characters");
        return;
    }
    let raw = cfg.has(|o| matches!(o, Opt::Raw));
    let ordered = !ex.has_table || raw;
    let tok = |s: &str| -> String { s.chars().filter(|&c| is_tok(c)).collect() };
    let got = tok(s);
    let want = tok(&ex.all);
    if want.chars().count() >= 2 {
        cx.nontrivial();
    }
    let same = |a: &str, b: &str| if ordered { a == b } else { sorted(a) == sorted(b) };
    if !same(&got, &want) {
        // known footprints: the stricter expectation fails, the lenient one holds exactly
        if let Some(l1) = &ex.lenient_lists {
            if same(&got, &tok(l1)) {
                cx.known("KF-C03-1", || json!({"case": case_json(html, w, cfg), "expected": want, "observed": got}));
                return;
            }
        }
        // a caption between two row groups is rendered below the whole table: the ordered
        // comparison fails, the expectation with that caption moved behind the rows holds exactly
        if let Some(m) = &ex.caption_between_moved {
            if ordered && got == tok(m) {
                cx.known("KF-C03-3", || json!({"case": case_json(html, w, cfg), "expected": want, "observed": got}));
                return;
            }
        }
        let kind = if want.chars().count() > got.chars().count() {
            "text lost"
        } else if want.chars().count() < got.chars().count() {
            "text duplicated or invented"
        } else {
            "text reordered or altered"
        };
        let class = format!("{kind} ({}) [{}]", cfg.short().chars().take(30).collect::<String>(), shape_key(html));
        cx.violation(&class, || json!({"case": case_json(html, w, cfg), "expected_tokens": want, "observed_tokens": got, "ordered_comparison": ordered, "output": s,
            "as_unit_test": format!("#[test] fn c03_replay() {{ let s = {}.string_from_read(&{:?}[..], {}).unwrap(); let got: String = s.chars().filter(|c| c.is_alphabetic()).collect(); assert_eq!(got, {:?}); }}", cfg.as_rust(), String::from_utf8_lossy(html), w, want)}));
        return;
    }
    // "nothing invented": under the trivial decorator the output is document text,
    // whitespace, table borders (and strike marks) only.
    if cfg.dec == Dec::Trivial && !footnotes && !ex.has_sup {
        let extra: String = s.chars().filter(|&c| !c.is_whitespace() && !c.is_control() && !BOX.contains(c) && c != '\u{336}').collect();
        let want_all: String = ex.lenient_lists.clone().unwrap_or(ex.all.clone());
        // '/' is both a border glyph (stacked rows) and a possible text character
        let want_all: String = want_all.chars().filter(|c| !BOX.contains(*c) && *c != '\u{336}').collect();
        if !same(&extra, &want_all) {
            let class = format!("trivial decorator: characters that are not document text [{}]", shape_key(html));
            cx.violation(&class, || json!({"case": case_json(html, w, cfg), "expected_chars": want_all, "observed_chars": extra, "output": s}));
        }
    }
}

struct Group {
    name: &'static str,
    docs: Vec<Vec<u8>>,
    widths: Vec<usize>,
    full: bool,
}
struct S {
    groups: Vec<Group>,
}
fn extras() -> Vec<String> {
    let mut v = seeds();
    for s in [
        "<table><thead><tr><th>qa<th>qb</thead><tbody><tr><td>qc<td>qd</tbody><tfoot><tr><td>qe<td>qf</tfoot></table>",
        "<table><caption>qa qb</caption><tr><td>qc</table>",
        "<table><tr><td colspan=3>qa<tr><td><td>qb<td></table>",
        "<table><tr><td colspan=2>qa<td>qb<tr><td><td><td>qc</table>",
        "<table><tr><td>qa<td colspan=2>qb<tr><td>qc<td><td></table>",
        "<ol>qa<li>qb</ol>",
        "<ol><li>qa</li><p>qb</p><li>qc</ol>",
        "<dl>qa<dt>qb<dd>qc</dl>",
        "<ul>qa<li>qb</ul>",
        "<p><a href=/1></a>qa<a href=/2> </a>qb<a href=/3><em><em></em></em></a>qc</p>",
        "<html><head><title>zz</title><style>p{color:red}</style><script>zy</script></head><body><p>qa<!-- zx --><script>zw</script><style>zv</style>qb</p></body></html>",
        "<p>qa<template>zz</template>qb</p>",
        "<p>qa<sup>qb</sup><sup>12</sup></p>",
        "<p>qa<ins>qb</ins><i>qc</i><s>qd</s><u>qe</u><b>qf</b><font>qg</font><small>qh</small></p>",
        "<div>qa<select><option>qb<option>qc</select><textarea>qd</textarea><button>qe</button></div>",
        "<p>qa<svg><text>qb</text></svg><math><mi>qc</mi></math></p>",
        "<center>qa<address>qb</address><article><section>qc<aside>qd</aside></section></article><nav>qe</nav><main>qf</main><figure>qg<figcaption>qh</figcaption></figure></center>",
        "<details><summary>qa</summary>qb</details><fieldset><legend>qc</legend>qd</fieldset>",
        "<p>qa<noscript>qb</noscript><iframe>zz</iframe><object>qc</object></p>",
        "<hr>qa<hr><p>qb<hr>qc",
    ] {
        v.push(s.to_string());
    }
    v
}
impl Scope for S {
    fn units(&self) -> u64 {
        self.groups.iter().map(|g| g.docs.len() as u64).sum()
    }
    fn run_unit(&self, unit: u64, cx: &mut Cx) {
        let mut u = unit as usize;
        let mut gi = 0;
        while u >= self.groups[gi].docs.len() {
            u -= self.groups[gi].docs.len();
            gi += 1;
        }
        let g = &self.groups[gi];
        let html = &g.docs[u];
        let dom = dom::parse(html);
        let ex = expect(&dom);
        for &w in &g.widths {
            if g.full {
                for cfg in configs(&Dec::Plain, w, 1, &allowed) {
                    check_one(html, w, &cfg, &ex, cx);
                }
                check_one(html, w, &Cfg::rich(), &ex, cx);
                check_one(html, w, &Cfg::rich().with(Opt::Footnotes(true)), &ex, cx);
                check_one(html, w, &Cfg::new(Dec::PlainNoDecorate), &ex, cx);
            }
            check_one(html, w, &Cfg::trivial(), &ex, cx);
            check_one(html, w, &Cfg::trivial().with(Opt::Raw), &ex, cx);
            check_one(html, w, &Cfg::plain().with(Opt::Raw).with(Opt::Footnotes(false)), &ex, cx);
        }
    }
    fn info(&self) -> Info {
        Info {
            rule: "documents: block grammar to the stated depth, regression seeds, structural extras (thead/tbody/tfoot/caption/th, colspans over empty columns, stray list children, empty links, head/script/style/comments, unknown and foreign elements), a slice of the regular-table universe, and every single tag-token deletion/duplication/adjacent swap of the smaller grammar documents; x widths x {trivial, plain (every deviation-1 option), rich, raw mode}; expected text from the harness's own html5ever TreeSink; sequence comparison for table-free documents and raw mode, multiset for tables; non-trivial = rendering succeeded and the document has >= 2 token characters".into(),
            bounds: json!({"groups": self.groups.iter().map(|g| json!({"name": g.name, "documents": g.docs.len(), "widths": g.widths, "all_configurations": g.full})).collect::<Vec<_>>()}),
            assumptions: vec!["html5ever's tokenizer and tree builder are shared by the subject and the oracle DOM".into(), "footnote targets of generated documents contain no token characters (documents whose targets do are skipped for footnote-enabled configurations and counted)".into()],
        }
    }
}
impl Prop for P {
    fn id(&self) -> &'static str {
        "C03"
    }
    fn build(&self, tier: Tier) -> Box<dyn Scope> {
        let g = G { tables: true, pre: true, valid_only: false };
        let b = |v: Vec<String>| v.into_iter().map(|s| s.into_bytes()).collect::<Vec<_>>();
        let mut base = doc_universe(tier.pick(2, 3), g, false, false);
        let mut seen: std::collections::HashSet<String> = base.iter().cloned().collect();
        for x in extras().into_iter().chain(table_slice(tier.pick(400, 4000))) {
            if seen.insert(x.clone()) {
                base.push(x);
            }
        }
        let wq: Vec<usize> = (1..=16).collect();
        let wt: Vec<usize> = (1..=40).chain([50, 80, 120, 200]).collect();
        let mut mutants: Vec<String> = vec![];
        for d in doc_universe(tier.pick(1, 2), g, true, false) {
            for m in token_mutants(&d) {
                if seen.insert(m.clone()) {
                    mutants.push(m);
                }
            }
        }
        Box::new(S {
            groups: vec![
                Group { name: "grammar + seeds + extras + table slice", docs: b(base), widths: tier.pick(wq, wt), full: true },
                Group { name: "token-level corruption", docs: b(mutants), widths: vec![1, 3, 6, 12, 40], full: false },
                Group { name: "id attributes on every element / empty id-carrying elements", docs: b(id_universe(tier.pick(1, 2))), widths: vec![1, 4, 9, 30], full: false },
            ],
        })
    }
    fn replay(&self, case: &Value, cx: &mut Cx) {
        let (html, w, cfg) = case_from_json(case);
        let dom = dom::parse(&html);
        check_one(&html, w, &cfg, &expect(&dom), cx);
    }
}
