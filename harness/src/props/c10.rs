//! C10 All API routes agree; rendering is deterministic and trees are reusable.
//! Histories of operations on the staged API (parse_html / dom_to_render_tree /
//! render_to_string / render_to_lines / render_coloured / clone / rebuild) are enumerated
//! exhaustively; every result must equal a fresh one-shot rendering at that width.
use crate::configs::{configs, STD_CSS};
use crate::doc::G;
use crate::engine::*;
use crate::run::*;
use crate::universe::*;
use crate::util::*;
use serde::{Deserialize, Serialize};
use serde_json::{json, Value};
use std::collections::HashMap;

pub struct P;
pub static C10: P = P;

#[derive(Serialize, Deserialize)]
struct HCase {
    html: String,
    cfg: Cfg,
    ops: Vec<Op>,
    final_w: usize,
}

fn fresh(html: &[u8], w: usize, cfg: &Cfg, memo: &mut HashMap<usize, Out<String>>, cx: &mut Cx) -> Out<String> {
    if let Some(r) = memo.get(&w) {
        return r.clone();
    }
    let r = cx.render(html, w, cfg);
    memo.insert(w, r.clone());
    r
}

fn check_history(c: &HCase, memo: &mut HashMap<usize, Out<String>>, cx: &mut Cx) {
    let html = c.html.as_bytes();
    let desc = || json!({"api": "staged history", "case": serde_json::to_value(c).unwrap()});
    let res = cx.call(&desc, || staged_history_raw(html, &c.cfg, &c.ops, c.final_w));
    cx.state(c.ops.len() as u64 + 1);
    cx.set_case_hash(h64_parts(&[html, format!("{:?}{}", c.ops, c.final_w).as_bytes(), c.cfg.short().as_bytes()]));
    let results = match &res {
        Out::Ok(v) => v,
        other => {
            // building the tree failed: must be the same failure as the one-shot route
            let f = fresh(html, 10, &c.cfg, memo, cx);
            if f.kind() != other.kind() {
                cx.violation("staged route failed where the one-shot route does not", || json!({"case": serde_json::to_value(c).unwrap(), "staged": format!("{other:?}"), "one_shot": format!("{f:?}")}));
            }
            return;
        }
    };
    let widths: Vec<usize> = c
        .ops
        .iter()
        .filter_map(|o| match o {
            Op::Str(w) | Op::Lines(w) | Op::Coloured(w) => Some(*w),
            _ => None,
        })
        .chain(std::iter::once(c.final_w))
        .collect();
    let mut kinds = std::collections::BTreeSet::new();
    for (r, &w) in results.iter().zip(widths.iter()) {
        let f = fresh(html, w, &c.cfg, memo, cx);
        kinds.insert(f.kind());
        if *r != f {
            let class = format!("a rendering in a history differs from the fresh one-shot rendering ({})", match &c.cfg.dec { Dec::Plain => "plain", Dec::Rich => "rich", Dec::Trivial => "trivial", _ => "other" });
            cx.violation(&class, || json!({"case": serde_json::to_value(c).unwrap(), "width": w, "in_history": format!("{r:?}"), "fresh": format!("{f:?}"),
                "as_unit_test": "build the tree with Config::parse_html + dom_to_render_tree, apply the listed ops on clones, compare each result with string_from_read at the same width"}));
            return;
        }
    }
    if kinds.len() >= 2 {
        cx.nontrivial();
    }
}

fn check_routes(html: &[u8], w: usize, cfg: &Cfg, cx: &mut Cx) {
    let a = cx.render(html, w, cfg);
    let b = cx.render(html, w, cfg);
    cx.state(2);
    if a != b {
        cx.violation("two identical calls gave different results", || json!({"case": case_json(html, w, cfg), "first": format!("{a:?}"), "second": format!("{b:?}")}));
        return;
    }
    let routes = cx.call(&|| json!({"api": "other routes", "case": case_json(html, w, cfg)}), || Out::Ok(other_routes_raw(html, w, cfg)));
    if let Out::Ok(rs) = routes {
        for (name, r) in rs {
            cx.state(1);
            if r != a {
                let class = format!("route {name} disagrees with string_from_read");
                cx.violation(&class, || json!({"case": case_json(html, w, cfg), "route": name, "string_from_read": format!("{a:?}"), "route_result": format!("{r:?}")}));
            }
        }
    }
    // the staged route, once
    let st = cx.call(&|| json!({"api": "staged", "case": case_json(html, w, cfg)}), || staged_history_raw(html, cfg, &[], w));
    match st {
        Out::Ok(v) => {
            if v[0] != a {
                cx.violation("staged route (parse_html, dom_to_render_tree, render_to_string) disagrees with string_from_read", || json!({"case": case_json(html, w, cfg), "string_from_read": format!("{a:?}"), "staged": format!("{:?}", v[0])}));
            }
        }
        other => {
            if other.kind() != a.kind() {
                cx.violation("staged route failed where the one-shot route does not", || json!({"case": case_json(html, w, cfg), "staged": format!("{other:?}"), "one_shot": format!("{a:?}")}));
            }
        }
    }
}

struct S {
    hist_docs: Vec<String>,
    route_docs: Vec<String>,
    hist_len: usize,
    widths: Vec<usize>,
    route_maxw: usize,
}
fn hist_cfgs() -> Vec<Cfg> {
    vec![Cfg::plain(), Cfg::rich(), Cfg::trivial(), Cfg::plain().with(Opt::Pad).with(Opt::UserCss(STD_CSS.into())).with(Opt::DocCss), Cfg::rich().with(Opt::MaxWrap(6)).with(Opt::Footnotes(true))]
}
impl Scope for S {
    fn units(&self) -> u64 {
        (self.hist_docs.len() + self.route_docs.len()) as u64
    }
    fn run_unit(&self, unit: u64, cx: &mut Cx) {
        let u = unit as usize;
        if u < self.hist_docs.len() {
            let html = &self.hist_docs[u];
            for cfg in hist_cfgs() {
                let mut alphabet: Vec<Op> = vec![Op::CloneTree, Op::Rebuild];
                for &w in &self.widths {
                    alphabet.push(Op::Str(w));
                    alphabet.push(Op::Lines(w));
                }
                if cfg.dec == Dec::Rich {
                    alphabet.push(Op::Coloured(self.widths[self.widths.len() - 1]));
                    alphabet.push(Op::Coloured(self.widths[1]));
                }
                let n = alphabet.len();
                let mut memo = HashMap::new();
                for len in 1..=self.hist_len {
                    for code in 0..(n as u64).pow(len as u32) {
                        let idx = decode(code, &vec![n; len]);
                        let ops: Vec<Op> = idx.iter().map(|&i| alphabet[i].clone()).collect();
                        // histories without any rendering operation are covered by their extensions
                        if !ops.iter().any(|o| matches!(o, Op::Str(_) | Op::Lines(_) | Op::Coloured(_))) {
                            continue;
                        }
                        let final_w = self.widths[(code as usize) % self.widths.len()];
                        check_history(&HCase { html: html.clone(), cfg: cfg.clone(), ops, final_w }, &mut memo, cx);
                    }
                }
            }
        } else {
            let html = self.route_docs[u - self.hist_docs.len()].as_bytes();
            for w in 0..=self.route_maxw {
                for dec in [Dec::Plain, Dec::Rich, Dec::Trivial, Dec::PlainNoDecorate] {
                    let dev = if matches!(dec, Dec::Plain | Dec::Rich) { 1 } else { 0 };
                    for cfg in configs(&dec, w, dev, &|_| true) {
                        check_routes(html, w, &cfg, cx);
                    }
                }
            }
        }
    }
    fn info(&self) -> Info {
        Info {
            rule: "(histories) documents x 5 configurations x every sequence of 1..=L operations over {render_to_string(clone,w), render_to_lines(clone,w) for w in the width set, clone the tree, rebuild the tree from the DOM, (rich) render_coloured}, then the original tree is rendered: every result is compared with a memoised fresh string_from_read at that width; (routes) documents x widths 0..=maxw x all deviation-1 configurations: string_from_read twice (determinism), lines_from_read, coloured, from_read*, parse+render, staged route; non-trivial = a history mixes widths with different outcomes (Ok and TooNarrow)".into(),
            bounds: json!({"history_documents": self.hist_docs.len(), "history_length": self.hist_len, "width_set": self.widths, "route_documents": self.route_docs.len(), "route_widths": format!("0..={}", self.route_maxw)}),
            assumptions: vec!["both stages of the staged route use the same configuration (the render tree legitimately depends on it)".into()],
        }
    }
}
impl Prop for P {
    fn id(&self) -> &'static str {
        "C10"
    }
    fn build(&self, tier: Tier) -> Box<dyn Scope> {
        let g = G { tables: true, pre: true, valid_only: false };
        let mut hist_docs = doc_universe(1, g, true, false);
        hist_docs.extend(table_slice(tier.pick(40, 200)));
        if tier == Tier::Quick {
            hist_docs = hist_docs.into_iter().step_by(2).collect();
        }
        let mut route_docs = doc_universe(2, g, true, false);
        route_docs.extend(table_slice(tier.pick(100, 1000)));
        // documents with fragment markers (incl. markers after the last text)
        let ids = id_universe(1);
        let step = tier.pick(3, 1);
        route_docs.extend(ids.iter().step_by(step).cloned());
        hist_docs.extend(ids.into_iter().step_by(tier.pick(40, 8)));
        Box::new(S { hist_docs, route_docs, hist_len: tier.pick(3, 4), widths: vec![0, 1, 3, 7, 20], route_maxw: tier.pick(12, 40) })
    }
    fn replay(&self, case: &Value, cx: &mut Cx) {
        if case.get("ops").is_some() {
            let c: HCase = serde_json::from_value(case.clone()).expect("C10 history case");
            check_history(&c, &mut HashMap::new(), cx);
        } else {
            let (html, w, cfg) = case_from_json(case);
            check_routes(&html, w, &cfg, cx);
        }
    }
}
