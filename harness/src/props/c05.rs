//! C05 Table borders form a consistent box drawing; C06 Table cells stay in their columns.
//! Exhaustive over regular tables (all colspan tilings, all content classes) x widths; the
//! output is parsed into a character-cell grid and checked against the invariants.
use crate::engine::*;
use crate::grid::*;
use crate::run::*;
use crate::universe::*;
use crate::util::*;
use serde::{Deserialize, Serialize};
use serde_json::{json, Value};

pub struct P05;
pub static C05: P05 = P05;
pub struct P06;
pub static C06: P06 = P06;

pub const CONTENTS05: [&str; 6] = ["", "a", "bb cc dd", "e<br>f", "中中中中中 g", "<table><tr><td>alpha</td><td>b</td></tr></table>"];
pub const CONTENTS06: [&str; 6] = ["", "X", "X1 X2 X3", "X4<br>X5", "X6X7X8X9", "X0<br><br>X1"];

#[derive(Debug, PartialEq)]
pub enum Form {
    Empty,
    Stacked,
    SideBySide,
}

/// C05's invariant on a rendered regular table.  Err(kind, message).
pub fn check_borders(lines: &[&str], w: usize, nested: bool) -> Result<Form, (String, String)> {
    if lines.is_empty() {
        return Ok(Form::Empty);
    }
    let g = grid(lines);
    if g.iter().any(|r| r.len() > w) {
        return Err(("a line is wider than the width".into(), String::new()));
    }
    let has_slash = g.iter().any(|r| slash_rule(r));
    let stacked_ok = pure_rule(&g[0])
        && pure_rule(g.last().unwrap())
        && g.iter().all(|r| {
            if pure_rule(r) {
                r.len() == w && r.iter().all(|&c| c == '─')
            } else if slash_rule(r) {
                r.len() == w
            } else {
                !r.iter().any(|&c| is_rule_glyph(c) || c == '│')
            }
        });
    if stacked_ok {
        return Ok(Form::Stacked);
    }
    if nested {
        // A nested table may itself be stacked ('/' rules narrower than w inside a cell) or
        // side by side inside a stacked outer table.  Outer side-by-side form = all lines
        // equally wide (checked below together with the junction rule); otherwise the outer
        // table must be in stacked form: full-width first and last rules.
        let equal = g.iter().all(|r| r.len() == g[0].len());
        if !equal {
            let full = |r: &Vec<char>| r.len() == w && r.iter().all(|&c| c == '─');
            if full(&g[0]) && full(g.last().unwrap()) {
                return Ok(Form::Stacked);
            }
        }
    } else if has_slash {
        return Err(("stacked form is malformed".into(), "a '/' rule is present but the stacked-form conditions do not hold".into()));
    }
    // side by side
    if !pure_rule(&g[0]) || !pure_rule(g.last().unwrap()) {
        return Err(("first or last line is not a horizontal rule".into(), String::new()));
    }
    let wd = g[0].len();
    if !g.iter().all(|r| r.len() == wd) {
        let widths: Vec<usize> = g.iter().map(|r| r.len()).collect();
        return Err(("lines have different display widths".into(), format!("{widths:?}")));
    }
    for y in 0..g.len() {
        for x in 0..wd {
            let c = g[y][x];
            if is_rule_glyph(c) {
                let up = matches!(c, '┴' | '┼');
                let down = matches!(c, '┬' | '┼');
                let above = y > 0 && g[y - 1][x] == '│';
                let below = y + 1 < g.len() && g[y + 1][x] == '│';
                if up != above || down != below {
                    return Err(("junction glyph does not match the bars above/below".into(), format!("({y},{x}) '{c}' bar_above={above} bar_below={below}")));
                }
            }
        }
    }
    // bars stand on every line of a band.  With a nested table in a cell, further rules, bars
    // and junctions appear inside the band: they are subject to the local junction rule above
    // (and to the equal-width rule) but need not span the band.
    let mut y = if nested { g.len() } else { 0 };
    while y < g.len() {
        if pure_rule(&g[y]) {
            let mut y2 = y + 1;
            while y2 < g.len() && !pure_rule(&g[y2]) {
                y2 += 1;
            }
            if y2 > y + 1 {
                let bars: Vec<usize> = (0..wd).filter(|&x| g[y + 1][x] == '│').collect();
                for yy in y + 1..y2 {
                    let b2: Vec<usize> = (0..wd).filter(|&x| g[yy][x] == '│').collect();
                    if b2 != bars {
                        return Err(("bars are not at the same columns on every line of a row".into(), format!("line {yy}")));
                    }
                }
            } else if y2 < g.len() {
                return Err(("two adjacent horizontal rules".into(), format!("line {y}")));
            }
            y = y2;
        } else {
            y += 1;
        }
    }
    Ok(Form::SideBySide)
}

/// Columns all of whose single-span cells are empty and that are covered by a colspan >= 2
/// cell in some row: the footprint precondition of KF-C05-1 / KF-C06-1.
fn zero_width_spanned_columns(t: &TableCase, which: u8) -> usize {
    // the renderer's size estimate of a cell, as far as the footprint needs it: the number of
    // columns of its text (a <br> counts 1; nested tables are never spanning cells' only content here)
    let sizes: Vec<usize> = t
        .contents
        .iter()
        .map(|body| {
            // C05 substitutes content classes for "Xn" placeholders
            let body = if let Some(i) = body.strip_prefix(|c: char| c.is_ascii_lowercase()).and_then(|r| r.parse::<usize>().ok()).filter(|_| which == 5 && body.len() == 2) {
                CONTENTS05.get(i).copied().unwrap_or("").to_string()
            } else {
                body.clone()
            };
            if body.contains("<table") {
                return usize::MAX / 2;
            }
            let text: String = body.replace("<br>", " ");
            crate::util::sw(&text)
        })
        .collect();
    let mut n = 0;
    for col in 0..t.cols {
        // every single-span cell of the column is empty, and every spanning cell that covers
        // it is too short to give each of its columns a share (size / colspan == 0) – only
        // then does the unchanged allocator leave the column at width zero
        let singles_empty = t.cells.iter().filter(|c| c.2 == 1 && c.1 == col).all(|c| c.3.is_none());
        let mut spanned = false;
        let mut all_short = true;
        for (ci, c) in t.cells.iter().enumerate() {
            if c.2 >= 2 && c.1 <= col && col < c.1 + c.2 {
                spanned = true;
                if sizes.get(ci).copied().unwrap_or(0) >= c.2 {
                    all_short = false;
                }
            }
        }
        if singles_empty && spanned && all_short {
            n += 1;
        }
    }
    n
}

#[derive(Serialize, Deserialize)]
struct Case {
    rows: usize,
    cols: usize,
    index: u64,
    width: usize,
    /// wide shapes use the first two content classes only (empty, one short token)
    #[serde(default)]
    reduced: bool,
    /// C06: rendered with pad_block_width
    #[serde(default)]
    pad: bool,
}

struct Shape {
    rows: usize,
    cols: usize,
    n: u64,
    reduced: bool,
}
struct S {
    which: u8,
    shapes: Vec<Shape>,
    maxw: usize,
}
fn shapes(tier: Tier, ncontents: usize) -> Vec<Shape> {
    let list: Vec<(usize, usize)> = match tier {
        Tier::Quick => vec![(1, 1), (1, 2), (1, 3), (2, 1), (2, 2), (2, 3)],
        Tier::Thorough => vec![(1, 1), (1, 2), (1, 3), (2, 1), (2, 2), (2, 3), (3, 1), (3, 2), (1, 4), (2, 4)],
    };
    let mut v: Vec<Shape> = list.into_iter().map(|(r, c)| Shape { rows: r, cols: c, n: n_tables(r, c, ncontents), reduced: false }).collect();
    // wide tables: all colspan tilings, cells empty or one short token
    let wide: Vec<(usize, usize)> = match tier {
        Tier::Quick => vec![(1, 5), (1, 6), (1, 8), (2, 4), (2, 5)],
        Tier::Thorough => vec![(1, 5), (1, 6), (1, 8), (2, 4), (2, 5), (3, 3), (1, 10)],
    };
    v.extend(wide.into_iter().map(|(r, c)| Shape { rows: r, cols: c, n: n_tables(r, c, 2), reduced: true }));
    v
}
fn table_for(which: u8, rows: usize, cols: usize, index: u64, reduced: bool) -> TableCase {
    if reduced {
        return if which == 6 {
            table_case(rows, cols, &CONTENTS06[..2], index, &|h| h.to_string())
        } else {
            let mut t = table_case(rows, cols, &["", "X1"], index, &|h| h.to_string());
            let mut html = t.html.clone();
            for l in 'a'..='z' {
                html = html.replace(&format!(">{l}1<"), &format!(">{}<", CONTENTS05[1]));
            }
            t.html = html;
            t
        };
    }
    // C06 uses one unique letter per cell; C05 uses fixed content classes (mapped to the
    // same cell bookkeeping: "empty" = first class)
    if which == 6 {
        table_case(rows, cols, &CONTENTS06, index, &|h| h.to_string())
    } else {
        let mut t = table_case(rows, cols, &["", "X1", "X2", "X3", "X4", "X5"], index, &|h| h.to_string());
        // substitute the content classes (letters are irrelevant for C05)
        let mut html = t.html.clone();
        for (i, c) in CONTENTS05.iter().enumerate().skip(1) {
            for l in 'a'..='z' {
                html = html.replace(&format!(">{l}{i}<"), &format!(">{c}<"));
            }
        }
        t.html = html;
        t
    }
}

fn check05(t: &TableCase, c: &Case, cx: &mut Cx) {
    let cfg = Cfg::plain();
    let r = cx.render(t.html.as_bytes(), c.width, &cfg);
    cx.state((t.cells.len() + 1) as u64);
    let s = match &r {
        Out::Ok(s) => s,
        Out::TooNarrow => return,
        other => {
            cx.violation(&format!("{}", other.kind()), || json!({"case": serde_json::to_value(c).unwrap(), "html": t.html, "observed": format!("{other:?}")}));
            return;
        }
    };
    let lines: Vec<&str> = s.lines().collect();
    let nested = t.html.matches("<table>").count() > 1;
    match check_borders(&lines, c.width, nested) {
        Ok(Form::SideBySide) => {
            cx.stat("side-by-side");
            if t.cols >= 2 {
                cx.nontrivial();
            }
        }
        Ok(Form::Stacked) => cx.stat("stacked"),
        Ok(Form::Empty) => cx.stat("empty"),
        Err((kind, msg)) => {
            // KF-C05-1: a zero-width column inside a colspan – the spanning cell counts a
            // separator the other rows skip, so its row is wider than the rules.
            if kind == "lines have different display widths" {
                let z = zero_width_spanned_columns(t, 5);
                let g = grid(&lines);
                let min = g.iter().map(|r| r.len()).min().unwrap_or(0);
                let max = g.iter().map(|r| r.len()).max().unwrap_or(0);
                if z > 0 && max - min <= z {
                    cx.known("KF-C05-1", || json!({"case": serde_json::to_value(c).unwrap(), "html": t.html, "output": s, "detail": msg}));
                    return;
                }
            }
            cx.violation(&kind, || json!({"case": serde_json::to_value(c).unwrap(), "html": t.html, "detail": msg, "output": s,
                "as_unit_test": format!("#[test] fn c05_replay() {{ let s = {}.string_from_read({:?}.as_bytes(), {}).unwrap(); /* {} {} */ print!(\"{{s}}\"); }}", cfg.as_rust(), t.html, c.width, kind, msg)}));
        }
    }
}

/// C06's invariant.  Ok(true) = side by side and checked, Ok(false) = not side by side.
pub fn check_cells(lines: &[&str], t: &TableCase, w: usize) -> Result<bool, (String, String)> {
    let g = grid(lines);
    if g.iter().any(|r| r.len() > w) {
        return Err(("a line is wider than the width given to the table".into(), String::new()));
    }
    // (4) every non-empty source cell has its token in the output – in every form
    let all: String = lines.concat();
    for c in &t.cells {
        if let Some(l) = c.3 {
            if !all.contains(l) {
                return Err(("text of a cell is missing".into(), format!("cell (row {}, col {}) token {l}", c.0, c.1)));
            }
        }
    }
    if g.is_empty() || g.iter().any(|r| slash_rule(r)) {
        return Ok(false);
    }
    let multi_col_row = (0..t.rows).any(|r| t.cells.iter().filter(|c| c.0 == r).count() > 1);
    if !g.iter().any(|r| r.contains(&'│')) && multi_col_row {
        // several cells per row but no bar anywhere: stacked form of single cells
        return Ok(false);
    }
    // bands
    let mut bands: Vec<(usize, usize)> = vec![];
    let mut y = 0;
    while y < g.len() {
        if pure_rule(&g[y]) {
            let mut y2 = y + 1;
            while y2 < g.len() && !pure_rule(&g[y2]) {
                y2 += 1;
            }
            if y2 > y + 1 {
                bands.push((y + 1, y2));
            }
            y = y2;
        } else {
            y += 1;
        }
    }
    use std::collections::BTreeMap;
    // letter -> (band, segment, left x, right x)
    let mut loc: BTreeMap<char, (usize, usize, usize, usize)> = BTreeMap::new();
    for (bi, &(y0, y1)) in bands.iter().enumerate() {
        let bars: Vec<usize> = (0..g[y0].len()).filter(|&x| g[y0][x] == '│').collect();
        for yy in y0..y1 {
            for (x, &ch) in g[yy].iter().enumerate() {
                if ch.is_ascii_lowercase() {
                    let seg = bars.iter().filter(|&&b| b < x).count();
                    let left = if seg == 0 { 0 } else { bars[seg - 1] + 1 };
                    let right = if seg < bars.len() { bars[seg] } else { g[0].len() }; // table edge = width of the top rule
                    if let Some(prev) = loc.get(&ch) {
                        if (prev.0, prev.1) != (bi, seg) {
                            return Err(("text of one cell appears in two places".into(), format!("token {ch}: {prev:?} and ({bi},{seg})")));
                        }
                    }
                    loc.insert(ch, (bi, seg, left, right));
                }
            }
        }
    }
    let expected = t.cells.iter().filter(|c| c.3.is_some()).count();
    if loc.len() != expected {
        return Err(("cell text outside the row bands".into(), format!("{} tokens located in bands, expected {}", loc.len(), expected)));
    }
    // (0) text inside a cell keeps its order: the word markers (digits) found in the cell's
    // segment, read line by line, are those of the source cell in source order
    {
        // source digits per cell, in table order
        let mut src_digits: Vec<String> = vec![];
        for part in t.html.split("<td").skip(1) {
            let body = part.splitn(2, '>').nth(1).unwrap_or("");
            let body = body.split("</td>").next().unwrap_or("");
            src_digits.push(body.chars().filter(|c| c.is_ascii_digit()).collect());
        }
        for (ci, c) in t.cells.iter().enumerate() {
            if let Some(l) = c.3 {
                let (bi, seg, _, _) = loc[&l];
                let (y0, y1) = bands[bi];
                let bars: Vec<usize> = (0..g[y0].len()).filter(|&x| g[y0][x] == '│').collect();
                let mut got = String::new();
                for yy in y0..y1 {
                    for (x, &ch) in g[yy].iter().enumerate() {
                        if ch.is_ascii_digit() && bars.iter().filter(|&&b| b < x).count() == seg {
                            got.push(ch);
                        }
                    }
                }
                if got != src_digits[ci] {
                    return Err(("text inside a cell is lost, duplicated or reordered".into(), format!("cell {l}: expected word markers {:?}, found {:?}", src_digits[ci], got)));
                }
            }
        }
    }
    // (1) one cell per segment
    let mut seen: BTreeMap<(usize, usize), char> = BTreeMap::new();
    for (&l, &(b, s, _, _)) in &loc {
        if let Some(o) = seen.insert((b, s), l) {
            return Err(("one segment holds text of two cells".into(), format!("segment ({b},{s}): {o},{l}")));
        }
    }
    // (2) order
    let mut last_band: Option<usize> = None;
    for r in 0..t.rows {
        let mut last_seg: Option<usize> = None;
        let mut band_of_row: Option<usize> = None;
        for c in t.cells.iter().filter(|c| c.0 == r) {
            if let Some(l) = c.3 {
                let (b, s, _, _) = loc[&l];
                if let Some(br) = band_of_row {
                    if br != b {
                        return Err(("a row is spread over several bands".into(), format!("row {r}: bands {br},{b}")));
                    }
                }
                band_of_row = Some(b);
                if let Some(ls) = last_seg {
                    if s <= ls {
                        return Err(("cells of a row are out of order".into(), format!("row {r}")));
                    }
                }
                last_seg = Some(s);
            }
        }
        if let Some(b) = band_of_row {
            if let Some(lb) = last_band {
                if b <= lb {
                    return Err(("rows are out of order".into(), format!("row {r}")));
                }
            }
            last_band = Some(b);
        }
    }
    // (3) column boundaries agree across rows
    let mut left_of: BTreeMap<usize, (usize, char)> = BTreeMap::new();
    let mut right_of: BTreeMap<usize, (usize, char)> = BTreeMap::new();
    for c in &t.cells {
        if let Some(l) = c.3 {
            let (_, _, lx, rx) = loc[&l];
            if let Some(&(x, o)) = left_of.get(&c.1) {
                if x != lx {
                    return Err(("column boundaries differ between rows".into(), format!("left of column {}: {o}@{x} vs {l}@{lx}", c.1)));
                }
            }
            left_of.insert(c.1, (lx, l));
            let rc = c.1 + c.2;
            if let Some(&(x, o)) = right_of.get(&rc) {
                if x != rx {
                    return Err(("column boundaries differ between rows".into(), format!("right of column {}: {o}@{x} vs {l}@{rx}", rc)));
                }
            }
            right_of.insert(rc, (rx, l));
        }
    }
    Ok(true)
}

fn check06(t: &TableCase, c: &Case, cx: &mut Cx) {
    let cfg = if c.pad { Cfg::plain().with(crate::run::Opt::Pad) } else { Cfg::plain() };
    let r = cx.render(t.html.as_bytes(), c.width, &cfg);
    cx.state((t.cells.len() + 1) as u64);
    let s = match &r {
        Out::Ok(s) => s,
        Out::TooNarrow => return,
        other => {
            cx.violation(&format!("{}", other.kind()), || json!({"case": serde_json::to_value(c).unwrap(), "html": t.html, "observed": format!("{other:?}")}));
            return;
        }
    };
    let lines: Vec<&str> = s.lines().collect();
    match check_cells(&lines, t, c.width) {
        Ok(true) => {
            cx.stat("side-by-side");
            if t.cols >= 2 {
                cx.nontrivial();
            }
        }
        Ok(false) => cx.stat("stacked or empty"),
        Err((kind, msg)) => {
            if kind == "column boundaries differ between rows" && zero_width_spanned_columns(t, 6) > 0 {
                cx.known("KF-C06-1", || json!({"case": serde_json::to_value(c).unwrap(), "html": t.html, "output": s, "detail": msg}));
                return;
            }
            cx.violation(&kind, || json!({"case": serde_json::to_value(c).unwrap(), "html": t.html, "detail": msg, "output": s,
                "as_unit_test": format!("#[test] fn c06_replay() {{ let s = {}.string_from_read({:?}.as_bytes(), {}).unwrap(); /* {} {} */ print!(\"{{s}}\"); }}", cfg.as_rust(), t.html, c.width, kind, msg)}));
        }
    }
}

impl Scope for S {
    fn units(&self) -> u64 {
        self.shapes.iter().map(|s| s.n).sum()
    }
    fn run_unit(&self, unit: u64, cx: &mut Cx) {
        let mut u = unit;
        let mut si = 0;
        while u >= self.shapes[si].n {
            u -= self.shapes[si].n;
            si += 1;
        }
        let sh = &self.shapes[si];
        let t = table_for(self.which, sh.rows, sh.cols, u, sh.reduced);
        for width in 1..=self.maxw {
            let c = Case { rows: sh.rows, cols: sh.cols, index: u, width, reduced: sh.reduced, pad: false };
            if self.which == 5 {
                check05(&t, &c, cx);
            } else {
                check06(&t, &c, cx);
                check06(&t, &Case { pad: true, ..c }, cx);
            }
        }
    }
    fn info(&self) -> Info {
        Info {
            rule: format!("all regular tables of the listed shapes, every row independently tiled by every composition of the column count into colspans, every cell content from 6 classes ({}; wide shapes: empty or one token), x every width; plain decorator with borders; the output is parsed into a character-cell grid; non-trivial = laid out side by side with >= 2 columns", if self.which == 5 { "empty, short, three words, two lines, wide characters, a nested 1x2 table" } else { "empty, one token, three words, two lines, a long word, two lines with a blank line between – one unique letter per cell, one digit per word; each also with pad_block_width" }),
            bounds: json!({"shapes": self.shapes.iter().map(|s| json!({"rows": s.rows, "cols": s.cols, "tables": s.n, "contents": if s.reduced { "empty / one token" } else { "all classes" }})).collect::<Vec<_>>(), "widths": format!("1..={}", self.maxw), "contents": if self.which == 5 { CONTENTS05.to_vec() } else { CONTENTS06.to_vec() }}),
            assumptions: vec!["cell text never contains box drawing characters or '/'".into()],
        }
    }
}
impl Prop for P05 {
    fn id(&self) -> &'static str {
        "C05"
    }
    fn build(&self, tier: Tier) -> Box<dyn Scope> {
        Box::new(S { which: 5, shapes: shapes(tier, 6), maxw: tier.pick(30, 60) })
    }
    fn replay(&self, case: &Value, cx: &mut Cx) {
        let c: Case = serde_json::from_value(case.clone()).expect("C05 case");
        check05(&table_for(5, c.rows, c.cols, c.index, c.reduced), &c, cx);
    }
}
impl Prop for P06 {
    fn id(&self) -> &'static str {
        "C06"
    }
    fn build(&self, tier: Tier) -> Box<dyn Scope> {
        Box::new(S { which: 6, shapes: shapes(tier, 6), maxw: tier.pick(30, 60) })
    }
    fn replay(&self, case: &Value, cx: &mut Cx) {
        let c: Case = serde_json::from_value(case.clone()).expect("C06 case");
        check06(&table_for(6, c.rows, c.cols, c.index, c.reduced), &c, cx);
    }
}
