//! C04 Paragraph wrapping is exactly greedy word filling with whitespace collapsed.
//! Exhaustive over word sequences x markup splittings x block contexts x widths, against
//! a character-wise greedy reference wrapper.
use crate::engine::*;
use crate::run::*;
use crate::util::*;
use serde::{Deserialize, Serialize};
use serde_json::{json, Value};

pub struct P;
pub static C04: P = P;

pub const WORDS: [&str; 14] = ["a", "bb", "ccc", "\u{301}", "ee\u{301}eee", "ffffff", "ggggggg", "中", "x中", "中y", "中中", "e\u{301}", "中中\u{301}中中", "\u{301}z"];
const NVARIANTS: usize = 7;

/// Reference greedy wrapper.  `words` are non-empty, whitespace-free.  Err = a character
/// is wider than the whole line.
pub fn greedy(words: &[&str], width: usize) -> Result<Vec<String>, ()> {
    let mut lines: Vec<String> = vec![];
    let mut line = String::new();
    let mut ll = 0usize;
    for w in words {
        let wl = sw(w);
        let need = if line.is_empty() { wl } else { wl + 1 };
        if ll + need <= width {
            if !line.is_empty() {
                line.push(' ');
                ll += 1;
            }
            line.push_str(w);
            ll += wl;
            continue;
        }
        if !line.is_empty() {
            lines.push(std::mem::take(&mut line));
            ll = 0;
        }
        if wl <= width {
            line.push_str(w);
            ll = wl;
            continue;
        }
        // hard wrap: maximal pieces, never splitting a character
        for c in w.chars() {
            let c_w = cw(c);
            if ll + c_w > width {
                if line.is_empty() {
                    return Err(());
                }
                lines.push(std::mem::take(&mut line));
                ll = 0;
                if c_w > width {
                    return Err(());
                }
            }
            line.push(c);
            ll += c_w;
        }
    }
    if !line.is_empty() {
        lines.push(line);
    }
    // the reference's own post-conditions (an oracle bug must not hide)
    for l in &lines {
        assert!(sw(l) <= width, "reference produced an over-wide line");
        assert!(!l.starts_with(' ') && !l.ends_with(' '), "reference produced edge spaces");
    }
    let rejoined: String = lines.concat().chars().filter(|c| *c != ' ').collect();
    assert_eq!(rejoined, words.concat(), "reference lost text");
    Ok(lines)
}

/// The five ways of cutting a word sequence into text nodes and inline elements.
pub fn body(words: &[&str], variant: usize) -> String {
    match variant {
        0 => words.join(" "),
        1 => format!(" {} ", words.join(" \n\t ")),
        2 => words
            .iter()
            .enumerate()
            .map(|(i, w)| if i % 2 == 0 { format!("<em>{w}</em>") } else { w.to_string() })
            .collect::<Vec<_>>()
            .join(" "),
        3 => words
            .iter()
            .enumerate()
            .map(|(i, w)| {
                let mut cs = w.chars();
                let f = cs.next().unwrap();
                let rest: String = cs.collect();
                if i % 2 == 1 {
                    format!("{f}<strong>{rest}</strong>")
                } else {
                    format!("<span>{f}</span>{rest}")
                }
            })
            .collect::<Vec<_>>()
            .join("<code> </code>"),
        4 => words.join("<span> </span>"),
        // a tag boundary inside every word: long untagged head, short tagged tail (and the reverse)
        5 => words
            .iter()
            .map(|w| {
                let n = w.chars().count();
                let head: String = w.chars().take(n - n / 3 - if n > 1 && n / 3 == 0 { 1 } else { 0 }).collect();
                let tail: String = w.chars().skip(head.chars().count()).collect();
                if tail.is_empty() { head } else { format!("{head}<em>{tail}</em>") }
            })
            .collect::<Vec<_>>()
            .join(" "),
        _ => words
            .iter()
            .map(|w| {
                let n = w.chars().count();
                let head: String = w.chars().take((n + 1) / 2).collect();
                let tail: String = w.chars().skip((n + 1) / 2).collect();
                if tail.is_empty() { format!("<code>{head}</code>") } else { format!("<strong>{head}</strong><code>{tail}</code>") }
            })
            .collect::<Vec<_>>()
            .join(" "),
    }
}

struct Ctx {
    name: &'static str,
    open: &'static str,
    close: &'static str,
    first: &'static str,
    cont: &'static str,
}
const CTXS: [Ctx; 8] = [
    Ctx { name: "p", open: "<p>", close: "</p>", first: "", cont: "" },
    Ctx { name: "ul/li", open: "<ul><li><p>", close: "</p></li></ul>", first: "* ", cont: "  " },
    Ctx { name: "blockquote", open: "<blockquote><p>", close: "</p></blockquote>", first: "> ", cont: "> " },
    Ctx { name: "ol/li", open: "<ol><li>", close: "</li></ol>", first: "1. ", cont: "   " },
    Ctx { name: "h2", open: "<h2>", close: "</h2>", first: "## ", cont: "## " },
    Ctx { name: "dl/dd", open: "<dl><dd>", close: "</dd></dl>", first: "  ", cont: "  " },
    Ctx { name: "ul/li/blockquote", open: "<ul><li><blockquote><div>", close: "</div></blockquote></li></ul>", first: "* > ", cont: "  > " },
    // the last number of the list is one below a power of ten
    Ctx { name: "ol start=9/li", open: "<ol start=9><li>", close: "</li></ol>", first: "9. ", cont: "   " },
];

#[derive(Serialize, Deserialize, Clone, Debug)]
struct Case {
    words: Vec<String>,
    variant: usize,
    ctx: usize,
    width: usize,
    /// max_wrap_width, if any
    m: Option<usize>,
}

fn check(c: &Case, cx: &mut Cx) {
    let words: Vec<&str> = c.words.iter().map(|s| s.as_str()).collect();
    let ctx = &CTXS[c.ctx];
    let html = format!("{}{}{}", ctx.open, body(&words, c.variant), ctx.close);
    let mut cfg = Cfg::rich();
    if let Some(m) = c.m {
        cfg = cfg.with(Opt::MaxWrap(m));
    }
    let pw = sw(ctx.first);
    let inner = c.width.saturating_sub(pw);
    let eff = match c.m {
        Some(m) => inner.min(m),
        None => inner,
    };
    let exp: Result<String, ()> = if eff == 0 {
        Err(())
    } else {
        greedy(&words, eff).map(|ls| ls.iter().enumerate().map(|(i, l)| format!("{}{}\n", if i == 0 { ctx.first } else { ctx.cont }, l)).collect())
    };
    let got = cx.render(html.as_bytes(), c.width, &cfg);
    cx.state(words.len() as u64 + 1);
    if let Ok(e) = &exp {
        if e.lines().count() >= 2 {
            cx.nontrivial();
        }
    }
    if cx.want_sample() && c.width == 5 {
        cx.sample(|| json!({"html": html, "width": c.width, "max_wrap_width": c.m, "expected": exp.clone().unwrap_or("TooNarrow".into()), "observed": format!("{got:?}")}));
    }
    let ok = match (&exp, &got) {
        (Ok(e), Out::Ok(g)) => e == g,
        (Err(()), Out::TooNarrow) => true,
        // inside a prefixed block the layout may refuse when fewer than the reserved
        // minimum (3 columns) remain for the content – that is C11's subject.
        (Ok(_), Out::TooNarrow) => pw > 0 && inner < 3,
        _ => false,
    };
    if !ok {
        let class = format!(
            "{} variant{} {}",
            ctx.name,
            c.variant,
            match (&exp, &got) {
                (Ok(_), Out::Ok(_)) => "lines differ from greedy reference",
                (Err(()), Out::Ok(_)) => "rendered although a character cannot fit",
                (_, Out::TooNarrow) => "TooNarrow although the reference fits",
                (_, Out::Panic(_)) => "panic",
                _ => "unexpected result",
            }
        );
        let case = serde_json::to_value(c).unwrap();
        cx.violation(&class, || json!({"case": case, "html": html, "expected": format!("{exp:?}"), "observed": format!("{got:?}"),
            "as_unit_test": format!("#[test] fn c04_replay() {{ let r = {}.string_from_read({:?}.as_bytes(), {}); assert_eq!(r.ok(), {:?}); }}", cfg.as_rust(), html, c.width, exp.clone().ok())}));
    }
}

struct S {
    tier: Tier,
    /// units: (k, code) flattened; offsets[k-1] = first unit index with k words
    offsets: Vec<u64>,
    maxk: usize,
}
impl S {
    fn widths(&self, k: usize) -> std::ops::RangeInclusive<usize> {
        match self.tier {
            Tier::Quick => 1..=10,
            Tier::Thorough => {
                if k <= 4 {
                    1..=40
                } else {
                    1..=10
                }
            }
        }
    }
}
impl Scope for S {
    fn units(&self) -> u64 {
        *self.offsets.last().unwrap()
    }
    fn run_unit(&self, unit: u64, cx: &mut Cx) {
        let k = (1..=self.maxk).find(|&k| unit < self.offsets[k]).unwrap();
        let code = unit - self.offsets[k - 1];
        let idx = decode(code, &vec![WORDS.len(); k]);
        let words: Vec<String> = idx.iter().map(|&i| WORDS[i].to_string()).collect();
        // 4-word sequences: four of the seven contexts (top level, list item, heading, nested)
        let ctxs: Vec<usize> = if k <= 3 { (0..CTXS.len()).collect() } else if k == 4 { vec![0, 1, 4, 6] } else { vec![0, 1, 2] };
        for variant in 0..NVARIANTS {
            for &ctx in &ctxs {
                for width in self.widths(k) {
                    check(&Case { words: words.clone(), variant, ctx, width, m: None }, cx);
                }
            }
            // max_wrap_width contexts: effective width min(m, w)
            for width in self.widths(k) {
                let ms: Vec<usize> = match self.tier {
                    Tier::Quick => vec![1, 4, width.saturating_sub(1)].into_iter().filter(|&m| m >= 1 && m <= width).collect(),
                    Tier::Thorough => {
                        if width <= 12 {
                            (1..=width).collect()
                        } else {
                            vec![1, 4, 9, width - 1]
                        }
                    }
                };
                let mut ms = ms;
                ms.dedup();
                for m in ms {
                    check(&Case { words: words.clone(), variant, ctx: 0, width, m: Some(m) }, cx);
                    if variant == 0 {
                        check(&Case { words: words.clone(), variant, ctx: 1, width, m: Some(m) }, cx);
                    }
                }
            }
        }
    }
    fn info(&self) -> Info {
        Info {
            rule: "every word sequence of length <= maxk over the 14-shape menu x 5 splittings into text nodes/inline elements x block contexts x every width in range (x max_wrap_width m); distinct by construction; non-trivial = the reference lays the paragraph out on >= 2 lines (a wrap or hard split happened)".into(),
            bounds: json!({"word_menu": WORDS, "max_words": self.maxk, "variants": NVARIANTS, "variant_kinds": ["plain text", "odd whitespace", "alternate words in em", "first char in span/strong, code separators", "separators in span", "word = untagged head + em tail", "word = strong head + code tail"], "contexts": CTXS.iter().map(|c| c.name).collect::<Vec<_>>(),
                "widths": match self.tier { Tier::Quick => "1..=10", Tier::Thorough => "1..=40 (<=4 words), 1..=10 (5 words)" }, "max_wrap_width": "quick {1,4,w-1}; thorough 1..=w for w<=12"}),
            assumptions: vec!["rich decorator (no affixes) is used so that inline elements add no characters".into(), "TooNarrow in a prefixed block with fewer than 3 content columns is accepted (C11)".into()],
        }
    }
}

impl Prop for P {
    fn id(&self) -> &'static str {
        "C04"
    }
    fn build(&self, tier: Tier) -> Box<dyn Scope> {
        let maxk = tier.pick(4, 5);
        let mut offsets = vec![0u64];
        for k in 1..=maxk {
            offsets.push(offsets[k - 1] + (WORDS.len() as u64).pow(k as u32));
        }
        Box::new(S { tier, offsets, maxk })
    }
    fn replay(&self, case: &Value, cx: &mut Cx) {
        let c: Case = serde_json::from_value(case.clone()).expect("C04 case");
        check(&c, cx);
    }
}
