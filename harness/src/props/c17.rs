//! C17 CSS never breaks rendering; insignificant CSS syntax does not matter.
//! (a) totality: every short sequence over a CSS token alphabet, every truncation of every
//! valid sheet, extreme :nth-child coefficients – through add_css, add_agent_css, <style>
//! and the style attribute.  (b) equivalence: every valid sheet x every syntax rewrite
//! styles the document identically (relation between two executions).
use crate::engine::*;
use crate::run::*;
use crate::util::*;
use serde::{Deserialize, Serialize};
use serde_json::{json, Value};

pub struct P;
pub static C17: P = P;

pub const TOKENS: [&str; 30] = [
    "p", "color", "red", "x", "important", ":nth-child(", "n", "{", "}", "(", ")", "[", "]", ":", ";", ",", ".", "#", "@", "!", "*", ">", "+", "-", "\"", "'", "\\", "/*", "*/", " ",
];
pub const TOKENS2: [&str; 16] = ["<!--", "-->", "0", "255", "256", "2147483647", "2147483648", "99999999999", "1e999", "#0a0b0c", "\n", "@media", "\u{e9}", "\u{4e2d}", "\u{1f600}x", "\u{301}"];

const DOC: &str = "<div><p class=a id=i>k <span>l</span></p><p>m</p></div><p class=a>n</p><span>o</span>";

#[derive(Clone, Serialize, Deserialize)]
struct Rule {
    sel: String,
    decls: Vec<(String, String, bool)>,
}
pub const REWRITES: [&str; 41] = [
    "base", "minified", "pretty-printed", "comments at token boundaries", "final semicolon dropped", "final semicolon doubled", "unknown property first", "unknown property last",
    "upper-case property names", "upper-case hex digits", "@media block before", "@import before", "unparsable rule set q{{}} before", "unparsable rule set !!!{..} before",
    "@media block between rules", "unparsable rule set between rules", "@media block after", "unsupported pseudo-class rule before", "unsupported pseudo-class rule between",
    "inner semicolon doubled", "unparsable rule set after", "bare @ after", "garbage after", "whitespace before semicolons", "comment before semicolons", "CRLF and tabs", "leading semicolon in blocks", "unknown at-rule statement between rules",
    "final semicolon doubled with a space between", "final semicolon doubled with a newline between", "final semicolon doubled with a comment between", "inner semicolons doubled with whitespace between", "two leading semicolons with a space between",
    "unknown at-rule with several nested rule sets before", "unknown at-rule with several nested rule sets between", "unparsable rule set with nested blocks before", "@media with several nested rule sets after",
    "comment glued to the end of each selector part (before white space)", "comment glued to the start of each selector part (after white space)", "no white space around > and , in selectors", "tabs and newlines inside selectors",
];
fn render_sheet(rules: &[Rule], v: usize) -> String {
    let mut s = String::new();
    let junk_at = "@media print { p { color: blue; } }";
    let junk_at2 = "@import \"x.css\";";
    let junk_rule = "q{{}}";
    let junk_rule2 = "!!! { color: red; }";
    let junk_rule3 = "p:hover{color:red;}";
    // statements that must be skipped as a whole although they contain rule sets that would match
    let junk_nested = "@x-unknown foo { i { color: blue } p { color: blue; display: none } span { background-color: #333 } div p { color: #123 } }";
    let junk_nested2 = "!!bogus { x { color: blue } p { color: blue } span { color: #456 } }";
    match v {
        10 => s += junk_at,
        11 => s += junk_at2,
        12 => s += junk_rule,
        13 => s += junk_rule2,
        17 => s += junk_rule3,
        33 => s += junk_nested,
        35 => s += junk_nested2,
        _ => {}
    }
    for (i, r) in rules.iter().enumerate() {
        if i > 0 {
            match v {
                14 => s += junk_at,
                15 => s += junk_rule,
                18 => s += junk_rule3,
                27 => s += "@charset \"utf-8\"; @font-face { font-family: x; src: url(y) }",
                34 => s += junk_nested,
                _ => {}
            }
        }
        let c = if v == 3 { "/*c*/" } else { "" };
        let (sp, nl) = match v {
            1 => ("", ""),
            2 => (" ", "\n"),
            25 => ("\t", "\r\n"),
            _ => (" ", ""),
        };
        let sel = match v {
            37 => r.sel.replace(' ', "/*c*/ "),
            38 => r.sel.replace(' ', " /*c*/"),
            39 => r.sel.replace(" > ", ">").replace(", ", ","),
            40 => r.sel.replace(' ', " \t\n "),
            _ => r.sel.clone(),
        };
        s += &format!("{c}{}{c}{sp}{{{nl}", sel);
        if v == 26 {
            s += ";";
        }
        if v == 32 {
            s += "; ; ";
        }
        if v == 6 {
            s += &format!("frob:{sp}nicate;{nl}");
        }
        for (j, (p, val, imp)) in r.decls.iter().enumerate() {
            let last = j + 1 == r.decls.len();
            let p2 = if v == 8 { p.to_uppercase() } else { p.to_string() };
            let val2 = if v == 9 && val.starts_with('#') { val.to_uppercase() } else { val.to_string() };
            s += &format!("{c}{sp}{p2}{c}:{sp}{c}{val2}{}{c}", if *imp { " !important" } else { "" });
            if v == 23 {
                s += " ";
            }
            if v == 24 {
                s += "/* c */";
            }
            if !(last && v == 4) {
                s += ";";
            }
            if last && v == 5 {
                s += ";";
            }
            if last && v == 28 {
                s += " ;";
            }
            if last && v == 29 {
                s += "\n;\n";
            }
            if last && v == 30 {
                s += "/**/;";
            }
            if !last && v == 31 {
                s += " \t;";
            }
            if !last && v == 19 {
                s += ";";
            }
            s += nl;
        }
        if v == 7 {
            s += &format!("frob:{sp}nicate;{nl}");
        }
        s += &format!("}}{nl}");
    }
    match v {
        16 => s += junk_at,
        20 => s += junk_rule,
        21 => s += "@",
        22 => s += "garbage",
        36 => s += "@media print { i { color: blue } p { color: blue; display: none } span { background-color: #333 } }",
        _ => {}
    }
    s
}
fn singles() -> Vec<Rule> {
    let sels = ["p", ".a", "p.a", "div p", "#i", "div > p", "p, span", "p.a span", ".a > span, #i"];
    let decls = [("color", "#0a0b0c"), ("background-color", "#0d0e0f"), ("display", "none"), ("color", "red"), ("color", "rgb(1,2,3)")];
    let mut v = vec![];
    for s in sels {
        for (p, val) in decls {
            for imp in [false, true] {
                v.push(Rule { sel: s.to_string(), decls: vec![(p.to_string(), val.to_string(), imp)] });
            }
        }
        v.push(Rule { sel: s.to_string(), decls: vec![("color".into(), "#0a0b0c".into(), false), ("background-color".into(), "#0d0e0f".into(), false)] });
    }
    v
}

#[derive(Serialize, Deserialize)]
struct EqCase {
    rules: Vec<Rule>,
    rewrite: usize,
    route: usize,
}
const ROUTES: [&str; 3] = ["add_css", "add_agent_css", "<style> + use_doc_css"];
fn styled(css: &str, route: usize, cx: &mut Cx) -> Out<String> {
    let (cfg, doc) = match route {
        0 => (Cfg::rich().with(Opt::UserCss(css.to_string())), DOC.to_string()),
        1 => (Cfg::rich().with(Opt::AgentCss(css.to_string())), DOC.to_string()),
        _ => (Cfg::rich().with(Opt::DocCss), format!("<style>{css}</style>{DOC}")),
    };
    cx.render_lines(doc.as_bytes(), 40, &cfg).map(|l| format!("{l:?}"))
}
fn check_eq(c: &EqCase, cx: &mut Cx) {
    let base = render_sheet(&c.rules, 0);
    let var = render_sheet(&c.rules, c.rewrite);
    let a = styled(&base, c.route, cx);
    let b = styled(&var, c.route, cx);
    cx.state(2);
    if var != base {
        cx.nontrivial();
    }
    if !a.is_ok() {
        cx.violation("a valid sheet was rejected or broke rendering", || json!({"case": serde_json::to_value(c).unwrap(), "sheet": base, "result": format!("{a:?}")}));
        return;
    }
    if a != b {
        let class = format!("{}: {}", REWRITES[c.rewrite], ROUTES[c.route]);
        cx.violation(&class, || json!({"case": serde_json::to_value(c).unwrap(), "base_sheet": base, "rewritten_sheet": var, "base_result": format!("{a:?}"), "rewritten_result": format!("{b:?}"),
            "as_unit_test": format!("#[test] fn c17_replay() {{ let a = html2text::config::rich().add_css({base:?}).unwrap().lines_from_read({DOC:?}.as_bytes(), 40).unwrap(); let b = html2text::config::rich().add_css({var:?}).unwrap().lines_from_read({DOC:?}.as_bytes(), 40).unwrap(); assert_eq!(a, b); }}")}));
    }
}

#[derive(Serialize, Deserialize)]
struct TotCase {
    css: String,
    route: usize,
}
const TROUTES: [&str; 5] = ["add_css", "add_agent_css", "<style> + use_doc_css", "style attribute + use_doc_css", "<style> followed by a second, valid <style>"];
fn check_total(c: &TotCase, cx: &mut Cx) {
    cx.state(1);
    let r: Out<String> = match c.route {
        0 => {
            let cfg = Cfg::rich().with(Opt::UserCss(c.css.clone()));
            cx.call(&|| json!({"api": "add_css", "css": c.css}), || build_cfg_raw(&cfg).map(|_| String::new()))
        }
        1 => {
            let cfg = Cfg::rich().with(Opt::AgentCss(c.css.clone()));
            cx.call(&|| json!({"api": "add_agent_css", "css": c.css}), || build_cfg_raw(&cfg).map(|_| String::new()))
        }
        2 => {
            // "</style" inside the sheet would end the element: the HTML parser's business
            let doc = format!("<style>{}</style>{DOC}", c.css.replace("</", "< /"));
            cx.render(doc.as_bytes(), 40, &Cfg::rich().with(Opt::DocCss))
        }
        4 => {
            // a malformed sheet must not reach into the next <style> element
            let doc = format!("<style>{}</style><style>span{{display:none}} .a{{color:#0a0b0c}}</style>{DOC}", c.css.replace("</", "< /"));
            cx.render(doc.as_bytes(), 40, &Cfg::rich().with(Opt::DocCss))
        }
        _ => {
            let attr = c.css.replace('"', "&quot;");
            let doc = format!("<p style=\"{attr}\">k</p><p>m</p>");
            cx.render(doc.as_bytes(), 40, &Cfg::rich().with(Opt::DocCss))
        }
    };
    cx.set_case_hash(h64_parts(&[c.css.as_bytes(), &[c.route as u8]]));
    if matches!(r, Out::CssErr) || c.css.contains('{') {
        cx.nontrivial();
    }
    let ok = match (&r, c.route) {
        (Out::Ok(_), _) => true,
        (Out::CssErr, 0) | (Out::CssErr, 1) => true,
        _ => false,
    };
    if !ok {
        let class = format!("{}: {}", TROUTES[c.route], match &r { Out::Panic(m) => format!("panic at {}", m.split(':').take(2).collect::<Vec<_>>().join(":")), o => o.kind().to_string() });
        cx.violation(&class, || json!({"case": serde_json::to_value(c).unwrap(), "result": format!("{r:?}")}));
        return;
    }
    // malformed CSS in the document does not change what text is rendered
    if let (Out::Ok(s), 2) = (&r, c.route) {
        if toks(s) != "klmno" {
            cx.violation("<style> content changed the rendered text", || json!({"case": serde_json::to_value(c).unwrap(), "text": toks(s)}));
        }
    }
    if let (Out::Ok(s), 4) = (&r, c.route) {
        if toks(s) != "kmn" {
            cx.violation("a <style> element changed what the following <style> element does", || json!({"case": serde_json::to_value(c).unwrap(), "text": toks(s), "expected": "kmn"}));
        }
    }
    if let (Out::Ok(s), 3) = (&r, c.route) {
        let t = toks(s);
        if t != "km" && t != "m" {
            cx.violation("style attribute content changed the text of other elements", || json!({"case": serde_json::to_value(c).unwrap(), "text": t}));
        }
    }
}

struct S {
    singles: Vec<Rule>,
    n_eq: u64,
    soup_len: usize,
    n_soup: u64,
    n_trunc: u64,
    n_nth: u64,
    triples: bool,
}
const NTH_VALS: [&str; 13] = ["0", "1", "-1", "5", "-5", "2147483647", "-2147483647", "2147483648", "-2147483648", "100000000000", "-100000000000", "+3", "007"];
impl S {
    fn ruleset(&self, i: u64) -> Vec<Rule> {
        let n = self.singles.len() as u64;
        if i < n {
            vec![self.singles[i as usize].clone()]
        } else if i < n + n * n {
            let j = i - n;
            vec![self.singles[(j % n) as usize].clone(), self.singles[(j / n) as usize].clone()]
        } else {
            // triples over every 5th single
            let m: Vec<&Rule> = self.singles.iter().step_by(5).collect();
            let k = m.len() as u64;
            let j = i - n - n * n;
            vec![m[(j % k) as usize].clone(), m[((j / k) % k) as usize].clone(), m[(j / k / k) as usize].clone()]
        }
    }
    fn n_rulesets(&self) -> u64 {
        let n = self.singles.len() as u64;
        let k = self.singles.iter().step_by(5).count() as u64;
        n + n * n + if self.triples { k * k * k } else { 0 }
    }
}
impl Scope for S {
    fn units(&self) -> u64 {
        self.n_eq + self.n_soup + self.n_trunc + self.n_nth
    }
    fn run_unit(&self, unit: u64, cx: &mut Cx) {
        if unit < self.n_eq {
            let rules = self.ruleset(unit);
            for rewrite in 1..REWRITES.len() {
                for route in 0..ROUTES.len() {
                    if route > 0 && rules.len() > 1 && unit % 7 != 0 {
                        continue; // the other routes share the parser; sampled by construction (every 7th)
                    }
                    check_eq(&EqCase { rules: rules.clone(), rewrite, route }, cx);
                }
            }
            return;
        }
        let u = unit - self.n_eq;
        if u < self.n_soup {
            // unit = prefix of soup_len-1 tokens; inner loop = last token (and all shorter prefixes once)
            let nt = TOKENS.len() as u64;
            let plen = self.soup_len - 1;
            let idx = decode(u, &vec![TOKENS.len(); plen]);
            let prefix: String = idx.iter().map(|&i| TOKENS[i]).collect();
            for last in TOKENS.iter().chain(TOKENS2.iter()) {
                let css = format!("{prefix}{last}");
                check_total(&TotCase { css: css.clone(), route: 0 }, cx);
                if u % 4 == 0 {
                    check_total(&TotCase { css: css.clone(), route: 1 }, cx);
                }
                if u < nt * nt {
                    // sequences whose leading tokens are "p": short sequences through the document routes
                    check_total(&TotCase { css: css.clone(), route: 2 }, cx);
                    check_total(&TotCase { css: css.clone(), route: 4 }, cx);
                    check_total(&TotCase { css, route: 3 }, cx);
                }
            }
            return;
        }
        let u = u - self.n_soup;
        if u < self.n_trunc {
            // every truncation of every rewrite of a rule set
            let rules = self.ruleset(u);
            for rewrite in [0usize, 2, 3, 10, 14] {
                let sheet = render_sheet(&rules, rewrite);
                let cs: Vec<(usize, char)> = sheet.char_indices().collect();
                for (i, _) in cs {
                    check_total(&TotCase { css: sheet[..i].to_string(), route: 0 }, cx);
                    // through the document: a truncated sheet neither changes the text nor
                    // reaches into the next <style> element (sheets that hide something
                    // themselves are left to C18)
                    if !sheet.contains("display") {
                        check_total(&TotCase { css: sheet[..i].to_string(), route: 2 }, cx);
                        check_total(&TotCase { css: sheet[..i].to_string(), route: 4 }, cx);
                    }
                }
            }
            return;
        }
        let u = u - self.n_trunc;
        let a = NTH_VALS[(u % NTH_VALS.len() as u64) as usize];
        let b = NTH_VALS[(u / NTH_VALS.len() as u64) as usize];
        for arg in [format!("{a}n+{}", b.trim_start_matches('+')), format!("{a}n{}", if b.starts_with('-') { b.to_string() } else { format!("+{}", b.trim_start_matches('+')) }), format!("{a}n"), b.to_string(), format!("{a}n - 1"), format!("n+{}", b.trim_start_matches('+'))] {
            let css = format!("p:nth-child({arg}){{color:red}} li:nth-child({arg}){{color:red}}");
            check_total(&TotCase { css: css.clone(), route: 0 }, cx);
            // matching arithmetic with these coefficients
            let doc = "<ul><li>k</li><li>l</li><li>m</li></ul><p>n</p>";
            let r = cx.render_lines(doc.as_bytes(), 40, &Cfg::rich().with(Opt::UserCss(css.clone())));
            cx.state(1);
            if !matches!(r, Out::Ok(_) | Out::CssErr) {
                cx.violation(&format!(":nth-child coefficients: {}", r.kind()), || json!({"css": css, "route": 0, "doc": doc, "result": format!("{r:?}")}));
            }
        }
    }
    fn info(&self) -> Info {
        Info {
            rule: "(a) every sequence of soup_len tokens over the 30-token CSS alphabet (last position also over 16 extra tokens: CDO/CDC, numeric limits, 1e999, newline, @media, 2/3/4-byte and combining characters - e.g. directly after a backslash) through add_css (all), add_agent_css (every 4th prefix) and, for sequences with a short prefix, <style> and the style attribute; every truncation of 5 spellings of every rule set; :nth-child with 13x13 extreme coefficient pairs in 6 argument forms incl. matching; (b) every rule set of 1..2 (thorough 3) rules x 36 syntax rewrites x routes: rich output must be identical; non-trivial = rewrite changed the bytes / soup contains a block or is rejected".into(),
            bounds: json!({"soup_length": self.soup_len, "alphabet": TOKENS, "extra_last_tokens": TOKENS2, "rule_sets": self.n_eq, "rewrites": REWRITES[1..].to_vec(), "truncated_rule_sets": self.n_trunc, "nth_pairs": self.n_nth}),
            assumptions: vec!["the token alphabet cannot spell display/content/white-space declarations, so junk CSS cannot legitimately change the text".into()],
        }
    }
}
impl Prop for P {
    fn id(&self) -> &'static str {
        "C17"
    }
    fn build(&self, tier: Tier) -> Box<dyn Scope> {
        let mut s = S { singles: singles(), n_eq: 0, soup_len: tier.pick(4, 5), n_soup: 0, n_trunc: 0, n_nth: (NTH_VALS.len() * NTH_VALS.len()) as u64, triples: tier == Tier::Thorough };
        s.n_eq = s.n_rulesets();
        s.n_soup = (TOKENS.len() as u64).pow(s.soup_len as u32 - 1);
        s.n_trunc = tier.pick(s.singles.len() as u64 + 300, s.n_eq.min(6000));
        Box::new(s)
    }
    fn replay(&self, case: &Value, cx: &mut Cx) {
        if case.get("rewrite").is_some() {
            check_eq(&serde_json::from_value(case.clone()).expect("C17 eq case"), cx);
        } else if case.get("css").is_some() {
            check_total(&TotCase { css: case["css"].as_str().unwrap().to_string(), route: case["route"].as_u64().unwrap_or(0) as usize }, cx);
        }
    }
}
