//! C01 Rendering is total: any bytes, width and configuration; never panics or hangs.
//! Five exhaustive families (token soup, raw bytes, numeric attributes, single-byte
//! corruption, deep nesting) x widths (0 .. usize::MAX) x 5 decorators x deviation-bounded
//! configurations.  Every execution runs in a worker process; a panic, an unexpected
//! error, an abort, a stack overflow or a watchdog expiry is a violation with that case as
//! witness.
use crate::configs::{configs, STD_CSS};
use crate::doc::G;
use crate::engine::*;
use crate::run::*;
use crate::universe::*;
use crate::util::*;
use serde_json::{json, Value};

pub struct P;
pub static C01: P = P;

pub const SOUP: [&str; 84] = [
    "<p>", "</p>", "<div>", "</div>", "<ul>", "</ul>", "<ol start=-3>", "</ol>", "<li>", "</li>", "<blockquote>", "</blockquote>", "<h1>", "</h1>", "<pre>", "</pre>", "<table>", "</table>", "<tr>", "</tr>", "<td>", "</td>",
    "<td colspan=3>", "<th colspan=0>", "<thead>", "<tbody>", "<dl>", "</dl>", "<dt>", "<dd>", "<a href=\"/u\">", "<a name=n>", "</a>", "<em>", "</em>", "<strong>", "<del>", "</del>", "<code>", "<sup>", "</sup>",
    "<span id=i class=a>", "</span>", "<br>", "<hr>", "<img src=s alt=al>", "<img>", "x", " ", "ab cd", "中", "e\u{301}", "\t", "\n", "7", "&amp;", "&#0;", "\u{0}", "\u{7f}", "<!-- c -->", "<!DOCTYPE html>", "<![CDATA[x]]>",
    "<style>p{color:red}</style>", "<script>s</script>", "<head>", "<body>", "<html>", "<", "<a", "<svg>", "<math>", "<template>", "<select>", "<option>", "<textarea>", "<title>", "<frameset>", "<caption>", "<tfoot>", "<colgroup>",
    "<font color=red>", "<p style=\"display:none\">", "<td style=\"height:0;overflow:hidden\" bgcolor=#123>", "<ol start=9223372036854775807>",
];
/// Reduced alphabet for the longer sequences.
pub const SOUP_SMALL: [&str; 26] = [
    "<p>", "</p>", "<ul>", "<ol start=-3>", "<li>", "<blockquote>", "<h1>", "<pre>", "<table>", "</table>", "<tr>", "<td>", "<td colspan=3>", "<th colspan=0>", "<dl>", "<dd>", "<a href=\"/u\">", "</a>", "<em>", "<br>",
    "<img src=s alt=al>", "x", " ", "ab cd", "中", "\n",
];
pub const WIDTHS: [usize; 12] = [0, 1, 2, 3, 5, 8, 9, 17, 40, 200, 100_000, usize::MAX];

pub const NUMVALS: [&str; 18] = ["-9223372036854775808", "-1", "0", "1", "2", "3", "1000", "2147483648", "9223372036854775806", "9223372036854775807", "18446744073709551615", "18446744073709551616", "1000000000000000000000000000000", "", "x", "1e9", "+5", " 7"];

fn decorators() -> Vec<Dec> {
    vec![Dec::Plain, Dec::PlainNoDecorate, Dec::Rich, Dec::Trivial, Dec::Custom(DecParams::ascii())]
}

/// All configurations of deviation <= dev for this width (pad only for bounded widths),
/// plus the degenerate wrap widths.
fn cfgs_for(dec: &Dec, w: usize, dev: usize) -> Vec<Cfg> {
    let bounded = w <= 100_000;
    let allow = move |o: &Opt| bounded || !matches!(o, Opt::Pad);
    let mut v = configs(dec, w.min(1 << 40), dev, &allow);
    if dev >= 1 {
        v.push(Cfg::new(dec.clone()).with(Opt::MaxWrap(0)));
        v.push(Cfg::new(dec.clone()).with(Opt::MaxWrap(0)).with(Opt::Overflow));
        v.push(Cfg::new(dec.clone()).with(Opt::MinWrap(0)).with(Opt::Overflow));
        v.push(Cfg::new(dec.clone()).with(Opt::MinWrap(usize::MAX)));
        v.push(Cfg::new(dec.clone()).with(Opt::MinWrap(usize::MAX)).with(Opt::Overflow));
        v.push(Cfg::new(dec.clone()).with(Opt::Raw).with(Opt::Overflow));
        v.push(Cfg::new(dec.clone()).with(Opt::DocCss).with(Opt::UserCss(STD_CSS.into())).with(Opt::Overflow));
    }
    v
}

pub fn check_one(html: &[u8], w: usize, cfg: &Cfg, lines_api: bool, cx: &mut Cx) {
    cx.state(1);
    let (kind, detail) = if lines_api {
        let r = cx.render_lines(html, w, cfg);
        (r.kind(), match &r { Out::Panic(m) | Out::OtherErr(m) => m.clone(), _ => String::new() })
    } else {
        let r = cx.render(html, w, cfg);
        (r.kind(), match &r { Out::Panic(m) | Out::OtherErr(m) => m.clone(), _ => String::new() })
    };
    match kind {
        "Ok" => cx.nontrivial(),
        "TooNarrow" => {}
        "CssParseError" if cfg.has(|o| matches!(o, Opt::UserCss(_) | Opt::AgentCss(_))) => {}
        _ => {
            // group by panic site
            let site: String = detail.split(": ").next().unwrap_or("").to_string();
            let class = format!("{kind} {site}");
            cx.violation(&class, || json!({"case": case_json(html, w, cfg), "api": if lines_api { "lines_from_read" } else { "string_from_read" }, "observed": format!("{kind}: {detail}"),
                "as_unit_test": format!("#[test] fn c01_replay() {{ let r = {}.string_from_read(&{:?}[..], {}); assert!(matches!(r, Ok(_) | Err(html2text::Error::TooNarrow))); }}", cfg.as_rust(), String::from_utf8_lossy(html), if w == usize::MAX { "usize::MAX".to_string() } else { w.to_string() })}));
        }
    }
}

fn sweep(html: &[u8], dev: usize, widths: &[usize], cx: &mut Cx) {
    for &w in widths {
        for dec in decorators() {
            for cfg in cfgs_for(&dec, w, dev) {
                check_one(html, w, &cfg, false, cx);
            }
        }
        check_one(html, w, &Cfg::rich(), true, cx);
    }
}

#[derive(Clone)]
enum Unit {
    /// soup prefix (indices into the alphabet); the unit iterates the last token
    Soup { small: bool, prefix: Vec<usize> },
    Bytes { alphabet: Vec<u8>, prefix: Vec<u8> },
    Numeric(String),
    Corrupt(Vec<u8>),
    Table(String),
    /// character classes: context index, first character index
    Chars(usize, usize),
    Deep { open: String, close: String, depth: usize, closed: bool, widths: Vec<usize>, lead: String },
}
struct S {
    tier: Tier,
    units: Vec<Unit>,
}

/// Representatives of the Unicode classes the renderer's own character tests distinguish
/// (is_numeric / is_ascii_digit, is_whitespace / is_ascii_whitespace, display width 0/1/2,
/// control, format, supplementary plane, case mappings that change length).
const CHARS: [char; 40] = [
    'a', '7', '\u{b2}', '\u{ff11}', '\u{663}', '\u{bd}', '\u{2167}', '\u{a0}', '\u{3000}', '\u{2003}', '\u{2028}', '\u{85}', '\u{200b}', '\u{feff}', '\u{301}', '\u{336}', '\u{200d}', '\u{4e2d}',
    '\u{1f600}', '\u{1}', '\u{7f}', '\u{9f}', '\u{ad}', '\u{202e}', '\u{fffd}', '\u{10ffff}', '\u{e000}', '\u{130}', '\u{df}', '\t', '\n', '\r', '\u{c}', ' ', '-', '\u{2010}', '\u{e01}', '\u{e31}', '\u{1100}',
    '\u{fe0f}',
];
/// Contexts with one or two holes (`{}`), each a place where the renderer looks at characters.
const CHAR_CONTEXTS: [&str; 22] = [
    "<sup>{}</sup>",
    "x<sup>{}</sup>y",
    "<s>{}</s> <del>a{}</del>",
    "<p>{}</p>",
    "<pre>{}</pre>",
    "<a href=\"{}\">{}</a>",
    "<img src=\"s\" alt=\"{}\">",
    "<ul><li>{}</li></ul>",
    "<ol start=\"{}\"><li>{}</li></ol>",
    "<table><tr><td>{}</td><td colspan=\"{}\">b</td></tr></table>",
    "<h2>{}</h2>",
    "<blockquote>{}</blockquote>",
    "<code>{}</code>",
    "<dl><dt>{}</dt><dd>{}</dd></dl>",
    "<em>a</em>{}<strong>b</strong>",
    "<p style=\"color:{}\">{}</p>",
    "<style>{}</style><p class=\"{}\">x</p>",
    "<div id=\"{}\">{}</div>",
    "<p>{} {}</p>",
    "<pre><em>{}</em>\n{}</pre>",
    "<table><tr><td>a{}</td><td>{}b</td></tr></table>",
    "<p>a<em>{}</em>b</p>",
];

const NESTABLE: [&str; 20] = ["div", "span", "em", "strong", "a", "ul", "ol", "blockquote", "table", "p", "h1", "pre", "dl", "li", "td", "code", "del", "sup", "font", "b"];
const CYCLES: [(&str, &str); 6] = [("<ul><li>", "</li></ul>"), ("<ol><li>", "</li></ol>"), ("<table><tr><td>", "</td></tr></table>"), ("<dl><dd>", "</dd></dl>"), ("<blockquote><p>", "</p></blockquote>"), ("<a href=u><em>", "</em></a>")];

impl Scope for S {
    fn units(&self) -> u64 {
        self.units.len() as u64
    }
    fn run_unit(&self, unit: u64, cx: &mut Cx) {
        let quick = self.tier == Tier::Quick;
        match &self.units[unit as usize] {
            Unit::Soup { small, prefix } => {
                let alpha: &[&str] = if *small { &SOUP_SMALL } else { &SOUP };
                let pre: String = prefix.iter().map(|&i| alpha[i]).collect();
                for last in alpha {
                    let doc = format!("{pre}{last}");
                    cx.transitions += prefix.len() as u64;
                    if *small {
                        // longer sequences: all widths, base configurations + a few
                        for &w in &WIDTHS {
                            for dec in [Dec::Plain, Dec::Rich] {
                                check_one(doc.as_bytes(), w, &Cfg::new(dec.clone()), false, cx);
                                check_one(doc.as_bytes(), w, &Cfg::new(dec.clone()).with(Opt::Overflow), false, cx);
                            }
                            check_one(doc.as_bytes(), w, &Cfg::plain().with(Opt::Raw), false, cx);
                            check_one(doc.as_bytes(), w, &Cfg::trivial().with(Opt::MinWrap(0)), false, cx);
                        }
                    } else {
                        sweep(doc.as_bytes(), if prefix.is_empty() { 2 } else { 1 }, if quick && !prefix.is_empty() { &[0, 1, 3, 9, 200, usize::MAX] } else { &WIDTHS }, cx);
                    }
                }
            }
            Unit::Bytes { alphabet, prefix } => {
                for &b in alphabet {
                    let mut doc = prefix.clone();
                    doc.push(b);
                    cx.transitions += prefix.len() as u64;
                    for w in [1usize, 9, usize::MAX] {
                        check_one(&doc, w, &Cfg::plain(), false, cx);
                        check_one(&doc, w, &Cfg::rich().with(Opt::DocCss).with(Opt::Overflow), true, cx);
                    }
                }
            }
            Unit::Numeric(doc) => sweep(doc.as_bytes(), 1, &WIDTHS, cx),
            Unit::Table(doc) => {
                for w in [1usize, 2, 3, 4, 6, 9] {
                    for cfg in [Cfg::plain(), Cfg::plain().with(Opt::Overflow), Cfg::rich().with(Opt::NoBorders), Cfg::trivial().with(Opt::MinWrap(1))] {
                        check_one(doc.as_bytes(), w, &cfg, false, cx);
                    }
                }
            }
            Unit::Chars(ctx, first) => {
                let esc = |c: char| -> String {
                    // keep attribute values and text well-formed: the markup alphabet is family A's business
                    c.to_string()
                };
                let mut strings: Vec<String> = vec![esc(CHARS[*first]), format!("a{}", CHARS[*first]), format!("{}a", CHARS[*first])];
                for d in CHARS {
                    strings.push(format!("{}{}", CHARS[*first], d));
                    strings.push(format!("a{}{}b", CHARS[*first], d));
                }
                for st in &strings {
                    let doc = CHAR_CONTEXTS[*ctx].replace("{}", st);
                    for w in [1usize, 2, 3, 5, 20] {
                        check_one(doc.as_bytes(), w, &Cfg::plain(), false, cx);
                        check_one(doc.as_bytes(), w, &Cfg::rich().with(Opt::Overflow).with(Opt::DocCss), false, cx);
                        check_one(doc.as_bytes(), w, &Cfg::trivial().with(Opt::MinWrap(1)).with(Opt::Strike(false)), false, cx);
                    }
                }
            }
            Unit::Corrupt(doc) => {
                for w in [1usize, 4, usize::MAX] {
                    check_one(doc, w, &Cfg::plain(), false, cx);
                    check_one(doc, w, &Cfg::rich().with(Opt::Overflow).with(Opt::DocCss), false, cx);
                    check_one(doc, w, &Cfg::new(Dec::Custom(DecParams::ascii())).with(Opt::Raw), false, cx);
                }
            }
            Unit::Deep { open, close, depth, closed, widths, lead } => {
                let mut doc = String::with_capacity((open.len() + close.len()) * depth + 8 + lead.len());
                doc.push_str(lead);
                for _ in 0..*depth {
                    doc.push_str(open);
                }
                doc.push('x');
                if *closed {
                    for _ in 0..*depth {
                        doc.push_str(close);
                    }
                }
                let scale = (*depth as f64 / 10_000.0).powi(2);
                cx.set_timeout(60 + (10.0 * scale) as u64);
                cx.transitions += *depth as u64;
                for &w in widths {
                    check_one(doc.as_bytes(), w, &Cfg::plain(), false, cx);
                    check_one(doc.as_bytes(), w, &Cfg::plain().with(Opt::Overflow), false, cx);
                    if *depth <= 1000 {
                        check_one(doc.as_bytes(), w, &Cfg::rich().with(Opt::Overflow).with(Opt::DocCss), true, cx);
                    }
                }
                cx.set_timeout(20);
            }
        }
    }
    fn info(&self) -> Info {
        let count = |f: &dyn Fn(&Unit) -> bool| self.units.iter().filter(|u| f(u)).count();
        Info {
            rule: "A token soup: every sequence of <= 2 items over the 84-token markup alphabet (deviation <= 2 for single tokens, <= 1 for pairs) and of 3 (thorough: 4) items over the 26-token alphabet; B raw bytes: all strings of length <= 2 over all 256 byte values, 3 over 24, 4 over 12, <= 6 over 6; C numeric attributes: colspan/start from 18 extreme or malformed values on 5 table/list shapes; D every single-byte edit of the small documents and seeds; E deep nesting of 20 elements and 6 element cycles, closed and unclosed, plus depth-1e5 chains of <sup> (thorough: 6 elements) in positions where the subtree is discarded unrendered (non-item child of <ol>; pending siblings when TooNarrow aborts); F a slice of the regular-table universe, and every table of shapes 1x2..3x2 with empty / one-character cells, at widths 1..9; G every string c, ac, ca, cd, acdb over 40 representatives of Unicode character classes (non-ASCII numerics and white space, width 0/1/2, controls, format characters, supplementary plane) in 22 text and attribute contexts (sup, s, pre, href, alt, li, ol start, colspan, style, class, id, ...); x widths {0,1,2,3,5,8,9,17,40,200,1e5,usize::MAX} x {plain, plain_no_decorate, rich, trivial, custom ASCII} x deviation-bounded configurations; non-trivial = the input was rendered (Ok)".into(),
            bounds: json!({"soup_units": count(&|u| matches!(u, Unit::Soup{..})), "byte_units": count(&|u| matches!(u, Unit::Bytes{..})), "numeric_documents": count(&|u| matches!(u, Unit::Numeric(_))), "corrupted_documents": count(&|u| matches!(u, Unit::Corrupt(_))), "deep_nesting_cases": count(&|u| matches!(u, Unit::Deep{..})), "char_class_units": count(&|u| matches!(u, Unit::Chars(..))), "table_documents": count(&|u| matches!(u, Unit::Table(_))),
                "widths": WIDTHS.iter().map(|w| w.to_string()).collect::<Vec<_>>(), "deep_nesting_depths": self.tier.pick(vec![1000, 10000], vec![1000, 10000, 100000]), "tier": self.tier.name()}),
            assumptions: vec!["'never hangs' is decided up to the watchdog (20 s per call; 60 s + 10 s x (depth/1e4)^2 for deep nesting)".into(), "stack safety is checked for the default 8 MiB main-thread stack of the worker processes".into(), "pad_block_width only with widths <= 1e5, as the property states".into()],
        }
    }
}
impl Prop for P {
    fn id(&self) -> &'static str {
        "C01"
    }
    fn build(&self, tier: Tier) -> Box<dyn Scope> {
        let mut units = vec![];
        // E first: the slow cases start early and spread over the workers
        let depths: Vec<usize> = tier.pick(vec![1000], vec![1000, 10_000]);
        for &depth in &depths {
            for closed in [true, false] {
                for tag in NESTABLE {
                    let open = if tag == "a" { "<a href=u>".to_string() } else { format!("<{tag}>") };
                    units.push(Unit::Deep { open, close: format!("</{tag}>"), depth, closed, widths: vec![1, 80, usize::MAX], lead: String::new() });
                }
                for (o, c) in CYCLES {
                    units.push(Unit::Deep { open: o.to_string(), close: c.to_string(), depth, closed, widths: vec![1, 80, usize::MAX], lead: String::new() });
                }
            }
        }
        // deep subtrees that are *discarded* instead of rendered: a child of <ol> that is not an item
        // (dropped when the render tree is built), and siblings still pending when TooNarrow aborts
        for tag in tier.pick(vec!["sup"], vec!["sup", "div", "span", "li", "td", "blockquote"]) {
            let d = 100_000;
            units.push(Unit::Deep { open: format!("<{tag}>"), close: format!("</{tag}>"), depth: d, closed: false, widths: vec![80], lead: "<ol><li>one</li>".into() });
            units.push(Unit::Deep { open: format!("<{tag}>"), close: format!("</{tag}>"), depth: d, closed: false, widths: vec![1], lead: "<ul><li>a</li></ul><p>".into() });
        }
        if tier == Tier::Quick {
            for tag in ["div", "ul", "table", "blockquote", "em", "pre", "ol", "dl"] {
                units.push(Unit::Deep { open: format!("<{tag}>"), close: format!("</{tag}>"), depth: 10_000, closed: tag != "ul", widths: vec![80], lead: String::new() });
            }
        } else {
            for tag in NESTABLE {
                let open = if tag == "a" { "<a href=u>".to_string() } else { format!("<{tag}>") };
                units.push(Unit::Deep { open, close: format!("</{tag}>"), depth: 100_000, closed: false, widths: vec![80, usize::MAX], lead: String::new() });
            }
            for (o, c) in CYCLES {
                units.push(Unit::Deep { open: o.to_string(), close: c.to_string(), depth: 100_000, closed: true, widths: vec![80], lead: String::new() });
            }
        }
        // A
        units.push(Unit::Soup { small: false, prefix: vec![] });
        for i in 0..SOUP.len() {
            units.push(Unit::Soup { small: false, prefix: vec![i] });
        }
        let n = SOUP_SMALL.len();
        for i in 0..n {
            for j in 0..n {
                if tier == Tier::Quick {
                    units.push(Unit::Soup { small: true, prefix: vec![i, j] });
                } else {
                    for k in 0..n {
                        units.push(Unit::Soup { small: true, prefix: vec![i, j, k] });
                    }
                }
            }
        }
        // B
        let all: Vec<u8> = (0..=255u8).collect();
        units.push(Unit::Bytes { alphabet: all.clone(), prefix: vec![] });
        for b in 0..=255u8 {
            units.push(Unit::Bytes { alphabet: all.clone(), prefix: vec![b] });
        }
        let a24: Vec<u8> = b"<>/&;=\"' \n\t\x00\x80\xff\xc3\xe4ab!-[]#1".to_vec();
        let a12: Vec<u8> = b"<>/&;a \n\x00\xe4\xb8\xad".to_vec();
        let a6: Vec<u8> = b"<a>/& ".to_vec();
        for x in &a24 {
            for y in &a24 {
                units.push(Unit::Bytes { alphabet: a24.clone(), prefix: vec![*x, *y] });
            }
        }
        for code in 0..(12u64.pow(3)) {
            let d = decode(code, &[12, 12, 12]);
            units.push(Unit::Bytes { alphabet: a12.clone(), prefix: d.iter().map(|&i| a12[i]).collect() });
        }
        for len in 4..=5usize {
            for code in 0..(6u64.pow(len as u32)) {
                let d = decode(code, &vec![6; len]);
                units.push(Unit::Bytes { alphabet: a6.clone(), prefix: d.iter().map(|&i| a6[i]).collect() });
            }
        }
        // C
        for a in NUMVALS {
            for b in NUMVALS.iter().take(8) {
                for shape in 0..5 {
                    units.push(Unit::Numeric(match shape {
                        0 => format!("<table><tr><td colspan=\"{a}\">x<td colspan=\"{b}\">y</table>"),
                        1 => format!("<table><tr><td colspan=\"{a}\">x<td>z<tr><td>w<td colspan=\"{b}\">y</table>"),
                        2 => format!("<ol start=\"{a}\"><li>x</ol>"),
                        3 => format!("<ol start=\"{a}\"><li>x<li>y<li>z</ol>"),
                        _ => format!("<table><tr><th colspan=\"{a}\"><td colspan=\"{b}\">y<tr><td>q</table>"),
                    }));
                }
            }
        }
        // F: regular tables (colspans, empty columns) at the narrowest widths
        for t in table_slice(tier.pick(400, 4000)) {
            units.push(Unit::Table(t));
        }
        // ... and every table of the small shapes whose cells are empty or hold one character
        // (all colspan tilings): the degenerate size estimates live here
        {
            let mut seen = std::collections::HashSet::new();
            for (r, c) in [(1usize, 2usize), (1, 3), (2, 2), (2, 3), (3, 2)] {
                for i in 0..n_tables(r, c, 2) {
                    let h = table_case(r, c, &["", "X"], i, &|h| h.to_string()).html;
                    if seen.insert(h.clone()) {
                        units.push(Unit::Table(h));
                    }
                }
            }
        }
        // G: character classes in every text / attribute context
        for ctx in 0..CHAR_CONTEXTS.len() {
            for first in 0..CHARS.len() {
                units.push(Unit::Chars(ctx, first));
            }
        }
        // D
        let g = G { tables: true, pre: true, valid_only: false };
        let seeds = doc_universe(tier.pick(0, 1), g, true, false);
        for d in corruption_universe(&seeds, tier.pick(44, 64)) {
            units.push(Unit::Corrupt(d));
        }
        Box::new(S { tier, units })
    }
    fn replay(&self, case: &Value, cx: &mut Cx) {
        let (html, w, cfg) = case_from_json(case);
        cx.set_timeout(600);
        check_one(&html, w, &cfg, false, cx);
        // the harness's own conversion of annotated lines is quadratic in the nesting depth:
        // the line API is replayed for ordinary documents only (as in the exploration)
        if html.len() < 100_000 {
            check_one(&html, w, &cfg, true, cx);
        }
    }
}
