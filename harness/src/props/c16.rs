//! C16 Custom decorators are honoured verbatim and measured by display width.
//! A decorator family implemented in the harness (12 string parameters); every deviation of
//! one (thorough: two) parameters from the ASCII base to each of a menu of non-ASCII /
//! wide / empty strings, x documents x widths.
use crate::doc::*;
use crate::dom;
use crate::engine::*;
use crate::props::c07;
use crate::run::*;
use crate::util::*;
use serde::{Deserialize, Serialize};
use serde_json::{json, Value};
use std::collections::HashMap;

pub struct P;
pub static C16: P = P;

/// Values for prefix-like parameters (quote, ul, ol_suffix, header) and for affixes.
pub const PREFIX_ALTS: [&str; 7] = ["", "§ ", "• ", "│ ", "） ", "〖", "»» "];
pub const AFFIX_ALTS: [&str; 6] = ["", "§", "•", "│", "）", "〖〗"];
fn is_prefix_param(i: usize) -> bool {
    i >= 8
}
fn alts(i: usize) -> &'static [&'static str] {
    if is_prefix_param(i) {
        &PREFIX_ALTS
    } else {
        &AFFIX_ALTS
    }
}

#[derive(Serialize, Deserialize, Clone)]
struct Case {
    params: DecParams,
    html: String,
    width: usize,
}

fn check_basic(c: &Case, cx: &mut Cx) {
    let cfg = Cfg::new(Dec::Custom(c.params.clone()));
    let r = cx.render(c.html.as_bytes(), c.width, &cfg);
    cx.state(1);
    let changed = c.params != DecParams::ascii();
    match &r {
        Out::TooNarrow => {}
        Out::Ok(s) => {
            if changed && s.chars().any(|ch| !ch.is_ascii() && !is_tok(ch) && !BOX.contains(ch) && ch != '\u{336}') {
                cx.nontrivial();
            }
            if let Some(l) = s.lines().find(|l| sw(l) > c.width) {
                let class = format!("line wider than the width [{}]", shape_key(c.html.as_bytes()));
                cx.violation(&class, || json!({"case": serde_json::to_value(c).unwrap(), "line": l, "output": s}));
                return;
            }
            let d = dom::parse(c.html.as_bytes());
            if !d.has_elem("table") {
                let want = toks(&dom::visible_text(&d, &|_| false));
                if toks(s) != want {
                    cx.violation("document text not preserved under a custom decorator", || json!({"case": serde_json::to_value(c).unwrap(), "expected_tokens": want, "observed_tokens": toks(s), "output": s}));
                }
            }
        }
        other => {
            let class = format!("{}: {}", other.kind(), match other { Out::Panic(m) => m.split(": ").next().unwrap_or("").to_string(), _ => String::new() });
            cx.violation(&class, || json!({"case": serde_json::to_value(c).unwrap(), "observed": format!("{other:?}")}));
        }
    }
}

/// Affixes surround exactly the element text.
fn check_affixes(params: &DecParams, w: usize, cx: &mut Cx) {
    let cfg = Cfg::new(Dec::Custom(params.clone())).with(Opt::Strike(false));
    let p = params;
    let cases: Vec<(&str, String, String)> = vec![
        ("em", "<p>aa <em>bb</em> cc</p>".into(), format!("aa {}bb{} cc", p.em, p.em)),
        ("strong", "<p>aa <strong>bb</strong> cc</p>".into(), format!("aa {}bb{} cc", p.strong, p.strong)),
        ("strikeout", "<p>aa <del>bb</del> cc</p>".into(), format!("aa {}bb{} cc", p.strike, p.strike)),
        ("code", "<p>aa <code>bb</code> cc</p>".into(), format!("aa {}bb{} cc", p.code, p.code)),
        ("link", "<p>aa <a href=\"/1\">bb</a> cc</p>".into(), format!("aa {}bb{} cc", p.link_open, p.link_close)),
        ("image", "<p>aa <img src=\"/s\" alt=\"bb\"> cc</p>".into(), format!("aa {}bb{} cc", p.img_open, p.img_close)),
        ("nested", "<p><em>aa <strong>bb</strong></em></p>".into(), format!("{}aa {}bb{}{}", p.em, p.strong, p.strong, p.em)),
    ];
    // with Unicode strikeout (the default) the marks go on the element's text only, never on
    // the decorator's own strings
    let cfg_marks = Cfg::new(Dec::Custom(params.clone()));
    let mut cases: Vec<(&str, String, String, &Cfg)> = cases.into_iter().map(|(n, h, want)| (n, h, want, &cfg)).collect();
    cases.push(("strikeout (Unicode marks on)", "<p>aa <del>bb</del> cc</p>".into(), format!("aa {}b\u{336}b\u{336}{} cc", p.strike, p.strike), &cfg_marks));
    cases.push(("strikeout in em (Unicode marks on)", "<p><em>aa <s>bb</s></em></p>".into(), format!("{}aa {}b\u{336}b\u{336}{}{}", p.em, p.strike, p.strike, p.em), &cfg_marks));
    for (name, html, want, cfg) in cases {
        let r = cx.render(html.as_bytes(), w, cfg);
        cx.state(1);
        match &r {
            Out::Ok(s) => {
                cx.nontrivial();
                let squeeze = |x: &str| -> String { x.chars().filter(|c| !c.is_whitespace()).collect() };
                let ok = if sw(&want) <= w { s.trim_end_matches('\n') == want } else { squeeze(s) == squeeze(&want) };
                if !ok {
                    let class = format!("{name} affixes are not verbatim around the element text");
                    cx.violation(&class, || json!({"case": {"params": params, "html": html, "width": w}, "expected": want, "observed": s}));
                }
            }
            Out::TooNarrow => {}
            other => {
                cx.violation(&format!("affix document: {}", other.kind()), || json!({"case": {"params": params, "html": html, "width": w}, "observed": format!("{other:?}")}));
            }
        }
    }
}

/// The trivial decorator produces nothing but document text, whitespace and table borders.
fn check_routes(params: &DecParams, h: &str, w: usize, cx: &mut Cx) {
    let cfg = Cfg::new(Dec::Custom(params.clone()));
    let a = cx.render(h.as_bytes(), w, &cfg);
    for (name, r) in other_routes_raw(h.as_bytes(), w, &cfg) {
        cx.state(1);
        if r != a {
            let class = format!("route {name} disagrees with string_from_read under a custom decorator");
            cx.violation(&class, || json!({"case": {"params": params, "html": h, "width": w}, "one_shot": format!("{a:?}"), "route": format!("{r:?}")}));
        }
    }
}

fn check_trivial(html: &str, w: usize, cx: &mut Cx) {
    let cfg = Cfg::trivial();
    let r = cx.render(html.as_bytes(), w, &cfg);
    cx.state(1);
    if let Out::Ok(s) = &r {
        let d = dom::parse(html.as_bytes());
        let vis: String = dom::visible_text(&d, &|_| false).chars().filter(|c| !c.is_whitespace() && !c.is_control() && !BOX.contains(*c)).collect();
        let got: String = s.chars().filter(|c| !c.is_whitespace() && !c.is_control() && !BOX.contains(*c) && *c != '\u{336}').collect();
        // superscript digits are a documented substitution of the same text
        let unsup = |x: &str| -> String {
            x.chars()
                .map(|c| match "⁰¹²³⁴⁵⁶⁷⁸⁹".chars().position(|s| s == c) {
                    Some(i) => (b'0' + i as u8) as char,
                    None => c,
                })
                .collect()
        };
        let same = if d.has_elem("table") {
            let mut a: Vec<char> = unsup(&got).chars().collect();
            let mut b: Vec<char> = vis.chars().collect();
            a.sort();
            b.sort();
            a == b
        } else {
            unsup(&got) == vis
        };
        if !same {
            let class = format!("trivial decorator emits characters that are not document text [{}]", shape_key(html.as_bytes()));
            cx.violation(&class, || json!({"case": case_json(html.as_bytes(), w, &cfg), "expected_chars": vis, "observed_chars": got, "output": s}));
        }
    }
}

struct S {
    tier: Tier,
    /// parameter sets: base, every single deviation, (thorough) every pair of deviations
    decs: Vec<DecParams>,
    docs: Vec<String>,
    contents: Vec<String>,
    widths: Vec<usize>,
    trivial_docs: Vec<String>,
}
impl Scope for S {
    fn units(&self) -> u64 {
        (self.decs.len() + self.trivial_docs.len()) as u64
    }
    fn run_unit(&self, unit: u64, cx: &mut Cx) {
        let u = unit as usize;
        if u >= self.decs.len() {
            let h = &self.trivial_docs[u - self.decs.len()];
            for w in 1..=self.tier.pick(20, 60) {
                check_trivial(h, w, cx);
            }
            return;
        }
        let params = &self.decs[u];
        let cfg = Cfg::new(Dec::Custom(params.clone()));
        for &w in &self.widths {
            for h in &self.docs {
                check_basic(&Case { params: params.clone(), html: h.clone(), width: w }, cx);
            }
            check_affixes(params, w, cx);
        }
        // a tree prepared by html2text::parse() rendered with this decorator equals the one-shot
        // rendering (size estimates must be taken with the rendering decorator)
        for h in self.docs.iter().step_by(3) {
            for &w in self.widths.iter().step_by(2) {
                check_routes(params, h, w, cx);
            }
        }
        // compositionality with display-width prefixes (C07's relation under this decorator)
        for x in &self.contents {
            let mut memo = HashMap::new();
            for (name, outer, parts) in c07::wrappers(x, &cfg, Tier::Quick) {
                if name.starts_with("ol") && !(name.contains("n=1 ") || name.contains("n=3 ") || name.contains("n=11 ")) {
                    continue;
                }
                if name.starts_with('h') && x.contains('<') {
                    continue;
                }
                for &width in &self.widths {
                    c07::check(&c07::Case { wrapper: name.clone(), outer: outer.clone(), parts: parts.clone(), width, cfg: cfg.clone() }, &mut memo, cx);
                }
            }
        }
    }
    fn info(&self) -> Info {
        Info {
            rule: "decorator family with 12 string parameters (link/em/strong/strikeout/code/image affixes, heading/quote/list prefixes): the ASCII base, every deviation of one parameter (thorough: every pair) to each menu value (empty, 2-byte width-1, 3-byte width-2, combining) x grammar documents x widths: no panic, width bound, text conservation, affixes verbatim, and C07's compositionality relation with display-width prefixes; plus the trivial decorator's 'nothing but document text' on grammar documents with superscripts; non-trivial = a non-ASCII decorator string was actually emitted".into(),
            bounds: json!({"decorators": self.decs.len(), "prefix_values": PREFIX_ALTS, "affix_values": AFFIX_ALTS, "documents": self.docs.len(), "contents_for_compositionality": self.contents.len(), "widths": self.widths, "trivial_documents": self.trivial_docs.len()}),
            assumptions: vec!["decorator strings contain no token characters, so text conservation can be checked on the token alphabet".into()],
        }
    }
}
impl Prop for P {
    fn id(&self) -> &'static str {
        "C16"
    }
    fn build(&self, tier: Tier) -> Box<dyn Scope> {
        let base = DecParams::ascii();
        let mut decs = vec![base.clone()];
        for i in 0..DecParams::NPARAMS {
            for a in alts(i) {
                let mut p = base.clone();
                p.set(i, a);
                if p != base {
                    decs.push(p);
                }
            }
        }
        if tier == Tier::Thorough {
            for i in 0..DecParams::NPARAMS {
                for j in i + 1..DecParams::NPARAMS {
                    for a in alts(i) {
                        for b in alts(j) {
                            let mut p = base.clone();
                            p.set(i, a);
                            p.set(j, b);
                            decs.push(p);
                        }
                    }
                }
            }
        }
        let g = G { tables: true, pre: true, valid_only: true };
        let docs: Vec<String> = block_docs(tier.pick(1, 2), g).iter().map(|d| html(d)).collect();
        let docs = if tier == Tier::Thorough { docs.into_iter().step_by(5).collect() } else { docs };
        let contents: Vec<String> = block_docs(tier.pick(0, 1), G { tables: false, pre: true, valid_only: true }).iter().map(|d| html(d)).collect();
        let contents = if tier == Tier::Thorough { contents.into_iter().step_by(3).collect() } else { contents };
        let mut trivial_docs: Vec<String> = block_docs(2, G { tables: true, pre: true, valid_only: false }).iter().map(|d| html(d)).collect();
        trivial_docs.push("<p>qa<sup>qb</sup> qc<sup>12</sup></p>".into());
        trivial_docs.push("<ul><li>qa<sup><em>qb</em> qc</sup></li></ul>".into());
        let widths: Vec<usize> = tier.pick((4..=24).step_by(1).collect(), (4..=40).chain([60, 80]).collect());
        Box::new(S { tier, decs, docs, contents, widths, trivial_docs })
    }
    fn replay(&self, case: &Value, cx: &mut Cx) {
        if case.get("wrapper").is_some() {
            let c: c07::Case = serde_json::from_value(case.clone()).expect("C16/C07 case");
            c07::check(&c, &mut HashMap::new(), cx);
        } else if case.get("params").is_some() && case.get("html").is_some() {
            let c: Case = serde_json::from_value(case.clone()).expect("C16 case");
            check_basic(&c, cx);
            check_affixes(&c.params, c.width, cx);
            check_routes(&c.params, &c.html, c.width, cx);
        } else {
            let (html, w, _) = case_from_json(case);
            check_trivial(&String::from_utf8_lossy(&html), w, cx);
        }
    }
}
