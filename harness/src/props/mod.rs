//! One module per property: scope definition (alphabet, bounds) and oracle wiring.
use crate::engine::Prop;

pub mod c02;
pub mod c03;
pub mod c04;

pub fn all() -> Vec<&'static dyn Prop> {
    vec![&c02::C02, &c03::C03, &c04::C04]
}
pub fn find(id: &str) -> Option<&'static dyn Prop> {
    all().into_iter().find(|p| p.id() == id)
}
