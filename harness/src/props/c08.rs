//! C08 Link footnotes are numbered consistently with their references.
//! Exhaustive over link placements (containers x link contents); reference numbering from
//! the oracle DOM.
use crate::doc::*;
use crate::dom::{self, Dom};
use crate::engine::*;
use crate::run::*;
use crate::util::*;
use serde_json::{json, Value};

pub struct P;
pub static C08: P = P;

const NPLACES: usize = 9;
const NCONTENTS: usize = 10;
const HREFS: [&str; 4] = ["/1", "/2", "/1", "/3"];

fn place(pi: usize, l: N) -> N {
    match pi {
        0 => e("p", vec![t("x "), l, t(" y")]),
        1 => e("ul", vec![e("li", vec![l]), e("li", vec![t("z")])]),
        2 => e("blockquote", vec![e("p", vec![l])]),
        3 => e("h2", vec![l]),
        4 => e("table", vec![e("tr", vec![e("td", vec![l]), e("td", vec![t("v")])])]),
        5 => e("table", vec![e("tr", vec![e("td", vec![t("u")]), e("td", vec![e("table", vec![e("tr", vec![e("td", vec![l])])])])])]),
        6 => e("dl", vec![e("dt", vec![l]), e("dd", vec![t("w")])]),
        // a note anchor: the link is the only child of a <sup>
        8 => e("p", vec![t("x"), e("sup", vec![l]), t(" y")]),
        _ => e("pre", vec![l]),
    }
}
fn content(ci: usize, c: char) -> Vec<N> {
    match ci {
        0 => vec![t(&c.to_string().repeat(2))],
        1 => vec![e("em", vec![t(&c.to_string())])],
        2 => vec![ea("img", &[("src", "/9"), ("alt", &c.to_string())], vec![])],
        3 => vec![],
        4 => vec![t(" ")],
        5 => vec![e("em", vec![e("em", vec![])])],
        // link texts of several words (a soft wrap can fall inside the link)
        6 => vec![t(&format!("{c}{c}{c} {c}{c}{c}"))],
        // a line break only: no content
        8 => vec![e("br", vec![])],
        // digits only (a <sup> holding nothing but digits is rendered with superscript digits)
        9 => vec![t("7")],
        _ => vec![t(&format!("{c} ")), e("em", vec![t(&format!("{c}{c}"))]), t(&format!(" {c}{c}{c}{c}"))],
    }
}
/// Contents used for documents of three or more links (a representative subset keeps the
/// unit space at (8*5)^k).
const CONTENTS_MANY: [usize; 5] = [0, 2, 3, 5, 6];
fn ncontents(k: usize) -> usize {
    if k <= 2 {
        NCONTENTS
    } else {
        CONTENTS_MANY.len()
    }
}
pub fn build_doc(code: u64, k: usize) -> Vec<N> {
    let mut c = code;
    let mut doc = vec![];
    let nc = ncontents(k);
    for i in 0..k {
        let pi = (c % NPLACES as u64) as usize;
        c /= NPLACES as u64;
        let ci = (c % nc as u64) as usize;
        let ci = if k <= 2 { ci } else { CONTENTS_MANY[ci] };
        c /= nc as u64;
        let letter = (b'a' + i as u8) as char;
        doc.push(place(pi, ea("a", &[("href", HREFS[i % HREFS.len()])], content(ci, letter))));
    }
    doc
}
/// The same document with the target of its first link replaced by the empty string.
fn with_empty_first_href(h: &str) -> String {
    h.replacen("href=\"/1\"", "href=\"\"", 1)
}

struct Link {
    href: String,
    /// token characters of the link's visible content
    toks: String,
    /// some child is not "shallow empty" in the renderer's sense (finding KF-C08-1)
    shallow_nonempty: bool,
}
fn links(d: &Dom) -> Vec<Link> {
    let mut out = vec![];
    for i in d.preorder() {
        if d.is_html(i, "a") {
            if let Some(h) = d.attr(i, "href") {
                // visible text of the subtree
                let mut s = String::new();
                fn vis(d: &Dom, i: usize, out: &mut String) {
                    let one = dom::visible_text_of(d, i);
                    out.push_str(&one);
                }
                vis(d, i, &mut s);
                let shallow_nonempty = d.nodes[i].kids.iter().any(|&k| match &d.nodes[k].data {
                    dom::Data::Text(t) => !t.trim().is_empty(),
                    dom::Data::Elem(l, _, _) => {
                        if l == "img" {
                            d.attr(k, "src").map(|s| !s.is_empty()).unwrap_or(false) && d.attr(k, "alt").map(|s| !s.trim().is_empty()).unwrap_or(false)
                        } else if l == "br" {
                            false
                        } else {
                            !d.nodes[k].kids.is_empty()
                        }
                    }
                    _ => false,
                });
                out.push(Link { href: h.to_string(), toks: toks(&s), shallow_nonempty });
            }
        }
    }
    out
}

/// (token chars and references) in output order: Tok(c) / Ref(k)
#[derive(Debug, PartialEq, Clone)]
enum Ev {
    Tok(char),
    Ref(usize),
}
fn stream(body: &str) -> Vec<Ev> {
    // prefixes ("## ", "> ", "* "), borders and line breaks may fall inside a hard-wrapped
    // reference: only token characters, digits and brackets are looked at
    let cs: Vec<char> = body.chars().filter(|c| is_tok(*c) || *c == '[' || *c == ']' || c.is_ascii_digit()).collect();
    let mut out = vec![];
    let mut i = 0;
    while i < cs.len() {
        if cs[i] == '[' {
            let mut j = i + 1;
            while j < cs.len() && cs[j].is_ascii_digit() {
                j += 1;
            }
            if j > i + 1 && j < cs.len() && cs[j] == ']' {
                out.push(Ev::Ref(cs[i + 1..j].iter().collect::<String>().parse().unwrap()));
                i = j + 1;
                continue;
            }
        }
        if is_tok(cs[i]) {
            out.push(Ev::Tok(cs[i]));
        }
        i += 1;
    }
    out
}

pub fn check(html: &str, w: usize, cfg: &Cfg, cx: &mut Cx) {
    let d = dom::parse(html.as_bytes());
    check_parsed(html, &links(&d), d.has_elem("table"), w, cfg, cx)
}
fn check_parsed(html: &str, ls: &[Link], has_table: bool, w: usize, cfg: &Cfg, cx: &mut Cx) {
    // a link whose text is only digits is written "[7]" by the plain and rich decorators, which cannot
    // be told from a reference: such documents are decided under the trivial decorator only
    if html.contains(">7</a>") && !matches!(cfg.dec, crate::run::Dec::Trivial) {
        return;
    }
    let r = cx.render(html.as_bytes(), w, cfg);
    cx.state(1);
    let s = match &r {
        Out::Ok(s) => s,
        Out::TooNarrow => return,
        other => {
            cx.violation(other.kind(), || json!({"case": case_json(html.as_bytes(), w, cfg), "observed": format!("{other:?}")}));
            return;
        }
    };
    let fnotes = match &cfg.dec {
        Dec::Plain => !cfg.has(|o| matches!(o, Opt::Footnotes(false))),
        _ => cfg.has(|o| matches!(o, Opt::Footnotes(true))),
    };
    let fail = |cx: &mut Cx, class: &str, extra: Value| {
        cx.violation(class, || json!({"case": case_json(html.as_bytes(), w, cfg), "output": s, "detail": extra,
            "as_unit_test": format!("#[test] fn c08_replay() {{ let s = {}.string_from_read({html:?}.as_bytes(), {w}).unwrap(); /* {class} */ print!(\"{{s}}\"); }}", cfg.as_rust())}));
    };
    let lines: Vec<&str> = s.lines().collect();
    let deep: Vec<&Link> = ls.iter().filter(|l| !l.toks.is_empty()).collect();
    let shallow: Vec<&Link> = ls.iter().filter(|l| l.shallow_nonempty).collect();
    // an entry wider than the width is hard-wrapped into pieces of at most w columns
    // ("after unwrapping at width"): the expected block is the entries cut greedily
    let footlist = |v: &Vec<&Link>| -> Vec<String> {
        let mut out = vec![];
        for (i, l) in v.iter().enumerate() {
            let entry = format!("[{}]: {}", i + 1, l.href);
            let mut cur = String::new();
            let mut pos = 0;
            for c in entry.chars() {
                if pos + cw(c) > w && !cur.is_empty() {
                    out.push(std::mem::take(&mut cur));
                    pos = 0;
                }
                cur.push(c);
                pos += cw(c);
            }
            out.push(cur.trim_end().to_string());
        }
        out
    };
    let looks_like_entry = |l: &str| l.starts_with('[') && l.contains("]: ");
    let tail_is = |exp: &Vec<String>| lines.len() >= exp.len() && lines[lines.len() - exp.len()..].iter().zip(exp).all(|(a, b)| a.trim_end() == b.trim_end());
    if !fnotes {
        let evs = stream(s);
        if lines.iter().any(|l| looks_like_entry(l)) || evs.iter().any(|e| matches!(e, Ev::Ref(_))) {
            fail(cx, "footnotes disabled but references or a footnote list appear", json!(null));
        }
        return;
    }
    if deep.len() >= 2 {
        cx.nontrivial();
    }
    // (the longer candidate first: an empty expectation matches every tail)
    let (rendered, known, nfoot) = if shallow.len() > deep.len() && tail_is(&footlist(&shallow)) {
        let n = footlist(&shallow).len();
        (shallow, true, n)
    } else if tail_is(&footlist(&deep)) {
        let n = footlist(&deep).len();
        (deep, false, n)
    } else {
        let mut idx = lines.len();
        while idx > 0 && looks_like_entry(lines[idx - 1]) {
            idx -= 1;
        }
        fail(cx, "footnote list is not [k]: target of the k-th link with content", json!({"expected": footlist(&deep), "observed_tail": lines[idx.min(lines.len().saturating_sub(footlist(&deep).len() + 1))..].to_vec()}));
        return;
    };
    let idx = lines.len() - nfoot;
    // exactly one list, separated from the text by a blank line
    if nfoot > 0 && idx > 0 && !lines[idx - 1].trim().is_empty() {
        fail(cx, "the footnote list is not separated from the text by a blank line", json!({"line_before": lines[idx - 1]}));
        return;
    }
    if lines[..idx].iter().any(|l| looks_like_entry(l)) {
        fail(cx, "a second footnote list appears inside the text", json!(null));
        return;
    }
    let body = lines[..idx].join("\n");
    let evs = stream(&body);
    // references
    let refs: Vec<usize> = evs.iter().filter_map(|e| if let Ev::Ref(k) = e { Some(*k) } else { None }).collect();
    let expn: Vec<usize> = (1..=rendered.len()).collect();
    let mut sorted = refs.clone();
    sorted.sort();
    if has_table && sorted != expn {
        // inside a side-by-side row a hard-wrapped reference is interleaved with the other
        // cells of the line-major stream; fall back to the digits alone
        let mut digits: Vec<char> = body.chars().filter(|c| c.is_ascii_digit()).collect();
        let mut want: Vec<char> = expn.iter().flat_map(|k| k.to_string().chars().collect::<Vec<_>>()).collect();
        digits.sort();
        want.sort();
        if digits == want {
            cx.stat("reference wrapped inside a table cell: digits compared only");
            if known {
                cx.known("KF-C08-1", || json!({"case": case_json(html.as_bytes(), w, cfg), "output": s}));
            }
            return;
        }
    }
    if (has_table && sorted != expn) || (!has_table && refs != expn) {
        fail(cx, "references are not 1..n in document order", json!({"references": refs, "links_with_content": rendered.len()}));
        return;
    }
    if !has_table {
        // reference k directly follows the text of link k
        for (k, l) in rendered.iter().enumerate() {
            if let Some(last) = l.toks.chars().last() {
                let pos = evs.iter().position(|e| *e == Ev::Ref(k + 1)).unwrap();
                if pos == 0 || evs[pos - 1] != Ev::Tok(last) {
                    fail(cx, "a reference does not follow the text of its link", json!({"reference": k + 1, "link_text": l.toks, "stream": format!("{evs:?}")}));
                    return;
                }
            }
        }
    }
    if known {
        cx.known("KF-C08-1", || json!({"case": case_json(html.as_bytes(), w, cfg), "output": s}));
    }
}

struct S {
    maxk: usize,
    offsets: Vec<u64>,
    widths: Vec<usize>,
    /// extra units: a multi-word link after L columns of text, every width (wrap position
    /// relative to the link start is swept systematically)
    n_offset_units: u64,
}
const LINK_TEXTS: [&str; 4] = ["aaa bbb", "aa bbbb c", "a <em>bb</em> cccc", "aaaa<em>bb</em> c"];
fn offset_doc(u: u64) -> String {
    let l = (u % 16) as usize;
    let ti = ((u / 16) % LINK_TEXTS.len() as u64) as usize;
    let ctx = u / 16 / LINK_TEXTS.len() as u64;
    // L columns of text in words of at most 3 letters
    let mut pre = String::new();
    while pre.len() < l {
        let n = (l - pre.len()).min(4);
        pre.push_str(&"xyzw"[..n.saturating_sub(1).max(1)]);
        pre.push(' ');
    }
    let pre = &pre[..l.min(pre.len())];
    let body = format!("{pre}<a href=\"/1\">{}</a> and <a href=\"/2\">dd</a> e", LINK_TEXTS[ti]);
    match ctx {
        0 => format!("<p>{body}</p>"),
        1 => format!("<ul><li>{body}</li></ul>"),
        _ => format!("<blockquote>{body}</blockquote>"),
    }
}
/// Two links whose first target is `l1` characters long (footnote lines that wrap, including
/// entries that are an exact multiple of the width).
fn long_target_doc(l1: usize, second: usize, ctx: usize) -> String {
    let h1: String = std::iter::once('/').chain("abcdefghijklmnopqrstuvwxyz0123456789".chars().cycle()).take(l1).collect();
    let h2 = ["/2", "/yz/yz/yz/yz/"][second];
    let body = format!("qa <a href=\"{h1}\">qb</a> qc <a href=\"{h2}\">qd</a> qe");
    match ctx {
        0 => format!("<p>{body}</p>"),
        _ => format!("<ul><li>{body}</li></ul>"),
    }
}
const N_LONG_UNITS: u64 = 40;
/// Documents with many links (two-digit references): n links spread over a paragraph, a list
/// and a table; every third one repeats a target, every seventh has no content.
const MANY: [usize; 8] = [9, 10, 11, 12, 19, 20, 21, 40];
fn many_links_doc(n: usize, shape: usize) -> String {
    let link = |k: usize| -> String {
        let a = (b'a' + (k / 26) as u8) as char;
        let b = (b'a' + (k % 26) as u8) as char;
        let href = if k % 3 == 2 { "/r".to_string() } else { format!("/{k}") };
        if k % 7 == 6 {
            format!("<a href=\"{href}\"></a>")
        } else {
            format!("<a href=\"{href}\">z{a}{b}</a>")
        }
    };
    let mut s = String::new();
    match shape {
        0 => {
            s.push_str("<p>");
            for k in 0..n {
                s.push_str(&format!("w {} ", link(k)));
            }
            s.push_str("</p>");
        }
        1 => {
            s.push_str("<ol>");
            for k in 0..n {
                s.push_str(&format!("<li>{}</li>", link(k)));
            }
            s.push_str("</ol>");
        }
        _ => {
            s.push_str("<p>");
            for k in 0..n / 2 {
                s.push_str(&format!("{} ", link(k)));
            }
            s.push_str("</p><blockquote><ul>");
            for k in n / 2..n {
                s.push_str(&format!("<li>x {} y</li>", link(k)));
            }
            s.push_str("</ul></blockquote>");
        }
    }
    s
}
fn cfgs() -> Vec<Cfg> {
    vec![Cfg::plain(), Cfg::plain().with(Opt::Footnotes(false)), Cfg::trivial().with(Opt::Footnotes(true)), Cfg::trivial(), Cfg::rich().with(Opt::Footnotes(true))]
}
impl Scope for S {
    fn units(&self) -> u64 {
        *self.offsets.last().unwrap() + self.n_offset_units + N_LONG_UNITS + (MANY.len() * 3) as u64
    }
    fn run_unit(&self, unit: u64, cx: &mut Cx) {
        if unit >= *self.offsets.last().unwrap() + self.n_offset_units + N_LONG_UNITS {
            let u = (unit - *self.offsets.last().unwrap() - self.n_offset_units - N_LONG_UNITS) as usize;
            let h = many_links_doc(MANY[u / 3], u % 3);
            let d = dom::parse(h.as_bytes());
            let ls = links(&d);
            for w in (10..=40usize).chain([60, 80, 120]) {
                for cfg in cfgs() {
                    check_parsed(&h, &ls, false, w, &cfg, cx);
                }
            }
            return;
        }
        if unit >= *self.offsets.last().unwrap() + self.n_offset_units {
            let l1 = (unit - *self.offsets.last().unwrap() - self.n_offset_units) as usize + 1;
            for second in 0..2 {
                for ctx in 0..2 {
                    let h = long_target_doc(l1, second, ctx);
                    let d = dom::parse(h.as_bytes());
                    let ls = links(&d);
                    for w in 4..=48usize {
                        for cfg in cfgs() {
                            check_parsed(&h, &ls, false, w, &cfg, cx);
                        }
                    }
                }
            }
            return;
        }
        if unit >= *self.offsets.last().unwrap() {
            let h = offset_doc(unit - *self.offsets.last().unwrap());
            let d = dom::parse(h.as_bytes());
            let ls = links(&d);
            for w in 8..=44usize {
                for cfg in cfgs() {
                    check_parsed(&h, &ls, false, w, &cfg, cx);
                }
            }
            return;
        }
        let k = (0..=self.maxk).find(|&k| unit < self.offsets[k + 1]).unwrap();
        let code = unit - self.offsets[k];
        let h = html(&build_doc(code, k));
        let all: Vec<usize> = (8..=40).collect();
        let widths: &Vec<usize> = if k <= 2 { &all } else { &self.widths };
        let d = dom::parse(h.as_bytes());
        let ls = links(&d);
        let has_table = d.has_elem("table");
        for &w in widths {
            for cfg in cfgs() {
                check_parsed(&h, &ls, has_table, w, &cfg, cx);
            }
        }
        if k >= 1 && k <= 2 {
            // an empty target is still a target: "[1]: " is listed and numbering is unaffected
            let he = with_empty_first_href(&h);
            let d = dom::parse(he.as_bytes());
            let ls = links(&d);
            for &w in &self.widths {
                for cfg in cfgs() {
                    check_parsed(&he, &ls, has_table, w, &cfg, cx);
                }
            }
        }
    }
    fn info(&self) -> Info {
        Info {
            rule: "documents of 0..maxk links, each placed in one of 8 containers (paragraph, list item, quote, heading, table cell, nested table cell, dt, pre) with one of 9 contents (text, em, image, empty, whitespace, deeply empty, two words, three words with em, a lone <br>; 5 of them for documents of 3+ links), repeated targets; plus multi-word links placed after 0..15 columns of text in a paragraph / list item / quote at every width 8..=44; plus two links whose first target is 1..40 characters long at every width 4..=48 (footnote entries that wrap, incl. exact multiples of the width); plus documents of 9..40 links in a paragraph / ordered list / quote with list (two-digit references, repeated targets, empty links); x widths x {plain, plain without footnotes, trivial with/without footnotes, rich with footnotes}; non-trivial = >= 2 links with content".into(),
            bounds: json!({"max_links": self.maxk, "places": NPLACES, "contents": NCONTENTS, "widths_3_or_more_links": self.widths, "widths_up_to_2_links": "8..=40"}),
            assumptions: vec!["a footnote entry wider than the width is expected as its greedy cut into pieces of at most w columns (the statement's 'after unwrapping at width')".into()],
        }
    }
}
impl Prop for P {
    fn id(&self) -> &'static str {
        "C08"
    }
    fn build(&self, tier: Tier) -> Box<dyn Scope> {
        let maxk = tier.pick(3, 4);
        // (the unit space grows as (8*8)^k; the quick tier keeps k <= 3)
        let mut offsets = vec![0u64];
        for k in 0..=maxk {
            offsets.push(offsets[k] + ((NPLACES * ncontents(k)) as u64).pow(k as u32));
        }
        Box::new(S { maxk, offsets, widths: tier.pick(vec![10, 12, 20, 40], vec![10, 11, 12, 16, 20, 40, 120]), n_offset_units: 16 * LINK_TEXTS.len() as u64 * 3 })
    }
    fn replay(&self, case: &Value, cx: &mut Cx) {
        let (html, w, cfg) = case_from_json(case);
        check(&String::from_utf8_lossy(&html), w, &cfg, cx);
    }
}
