//! C14 Every id with visible content yields one fragment marker at its content.
//! Reference from the oracle DOM: number of visible token characters before / inside the
//! element carrying the id; compared with the position of FragmentStart in the line output.
use crate::doc::*;
use crate::dom::{self, Data, Dom};
use crate::engine::*;
use crate::run::*;
use crate::util::*;
use serde_json::{json, Value};

pub struct P;
pub static C14: P = P;

/// (tokens before the element, tokens inside it) in document order.
fn position(d: &Dom, target: usize) -> (usize, usize) {
    fn go(d: &Dom, i: usize, target: usize, count: &mut usize, res: &mut (usize, usize)) {
        let start = *count;
        if i == target {
            res.0 = start;
        }
        match &d.nodes[i].data {
            Data::Text(t) => *count += t.chars().filter(|c| is_tok(*c)).count(),
            Data::Elem(l, html, at) => {
                if *html && dom::IGNORED.contains(&l.as_str()) {
                } else if *html && l == "img" {
                    let src = at.iter().find(|(k, _)| k == "src").map(|(_, v)| v.as_str()).unwrap_or("");
                    let alt = at.iter().find(|(k, _)| k == "alt").map(|(_, v)| v.as_str()).unwrap_or("");
                    if !src.is_empty() {
                        *count += alt.chars().filter(|c| is_tok(*c)).count();
                    }
                } else {
                    for &k in &d.nodes[i].kids {
                        go(d, k, target, count, res);
                    }
                }
            }
            Data::Doc => {
                for &k in &d.nodes[i].kids {
                    go(d, k, target, count, res);
                }
            }
            _ => {}
        }
        if i == target {
            res.1 = *count - start;
        }
    }
    let mut res = (0, 0);
    let mut count = 0;
    go(d, 0, target, &mut count, &mut res);
    res
}

pub fn check(base: &str, marked: &str, w: usize, cx: &mut Cx) {
    let cfg = Cfg::rich();
    let r = cx.render_lines(marked.as_bytes(), w, &cfg);
    let r0 = cx.render_lines(base.as_bytes(), w, &cfg);
    cx.state(2);
    let fail = |cx: &mut Cx, class: &str, extra: Value| {
        cx.violation(class, || json!({"base": base, "html": marked, "width": w, "detail": extra,
            "as_unit_test": format!("#[test] fn c14_replay() {{ let ls = html2text::config::rich().lines_from_read({marked:?}.as_bytes(), {w}).unwrap(); /* {class} */ }}")}));
    };
    let (lines, lines0) = match (&r, &r0) {
        (Out::Ok(a), Out::Ok(b)) => (a, b),
        (Out::TooNarrow, Out::TooNarrow) => return,
        _ => {
            fail(cx, "adding an id changed whether rendering succeeds", json!({"with_id": format!("{r:?}"), "without": format!("{r0:?}")}));
            return;
        }
    };
    if lines_text(lines) != lines_text(lines0) {
        fail(cx, "adding an id changed the text", json!({"with_id": lines_text(lines), "without": lines_text(lines0)}));
        return;
    }
    let d = dom::parse(marked.as_bytes());
    let table = d.has_elem("table");
    // linearise
    let mut count = 0usize;
    let mut marks: Vec<(String, usize, usize)> = vec![]; // (name, tokens before, line)
    let mut tok_line: Vec<usize> = vec![]; // line of the k-th token
    for (li, l) in lines.iter().enumerate() {
        for p in l {
            match p {
                Piece::Str(s, _) => {
                    for c in s.chars() {
                        if is_tok(c) {
                            count += 1;
                            tok_line.push(li);
                        }
                    }
                }
                Piece::Frag(f) => marks.push((f.clone(), count, li)),
            }
        }
    }
    let targets: Vec<(String, usize)> = (0..d.nodes.len())
        .filter_map(|i| {
            let name = d.attr(i, "id").or_else(|| if d.is_html(i, "a") { d.attr(i, "name") } else { None })?;
            Some((name.to_string(), i))
        })
        .collect();
    for (name, _, _) in &marks {
        if !targets.iter().any(|(n, _)| n == name) {
            fail(cx, "a marker with an unknown name appeared", json!(name));
            return;
        }
    }
    let mut any_visible = false;
    for (name, target) in &targets {
        let tag = d.elem(*target).map(|e| e.0.to_string()).unwrap_or_default();
        let (before, inside) = position(&d, *target);
        let mine: Vec<&(String, usize, usize)> = marks.iter().filter(|m| &m.0 == name).collect();
        if inside > 0 {
            any_visible = true;
            if mine.len() != 1 {
                fail(cx, &format!("<{tag}>: {} markers for an element with visible text{}", mine.len(), if targets.len() > 1 { " (several ids in the document)" } else { "" }), json!({"id": name, "lines": format!("{lines:?}")}));
                return;
            }
            let (_, pos, line) = mine[0];
            if !table {
                if *pos != before {
                    fail(cx, &format!("<{tag}>: marker is not between the preceding text and the element's first character (off by {})", *pos as i64 - before as i64), json!({"id": name, "tokens_before_element": before, "tokens_before_marker": pos, "lines": format!("{lines:?}")}));
                    return;
                }
                // "normally immediately before it on the same line": not required by the statement
                // (the marker may sit on the blank line that separates two blocks); measured only.
                if *pos < tok_line.len() {
                    if tok_line[*pos] == *line {
                        cx.stat("marker on the line of the element's first character");
                    } else if tok_line[*pos] > *line {
                        cx.stat("marker on an earlier line (blank separator or forced break)");
                    } else {
                        fail(cx, &format!("<{tag}>: marker is on a later line than the element's first character"), json!({"id": name, "marker_line": line, "first_char_line": tok_line[*pos], "lines": format!("{lines:?}")}));
                        return;
                    }
                }
            }
        } else if mine.len() > 1 {
            fail(cx, &format!("<{tag}>: several markers for an element without visible text"), json!({"id": name, "lines": format!("{lines:?}")}));
            return;
        }
    }
    // markers appear in document order (except across side-by-side table cells): the markers
    // of elements with visible text, in output order, are the targets in document order
    if !table {
        let visible: Vec<&String> = targets.iter().filter(|(_, t)| position(&d, *t).1 > 0).map(|(n, _)| n).collect();
        let got: Vec<&String> = marks.iter().map(|m| &m.0).filter(|n| visible.contains(n)).collect();
        if got != visible {
            fail(cx, "markers are not in document order", json!({"document_order": visible, "output_order": got, "lines": format!("{lines:?}")}));
            return;
        }
    }
    if any_visible {
        cx.set_case_hash(h64_parts(&[marked.as_bytes(), &w.to_le_bytes()]));
        cx.nontrivial();
    }
}

/// Variants of a document with id="F" (and name="F" on anchors) on each element in turn.
pub fn variants(doc: &[N]) -> Vec<String> {
    let mut out = vec![];
    for p in elem_paths(doc) {
        let mut d = doc.to_vec();
        let is_a = {
            let n = node_at_mut(&mut d, &p);
            if let N::E(tag, attrs, _) = n {
                attrs.push(("id".into(), "F".into()));
                tag == "a"
            } else {
                false
            }
        };
        out.push(html(&d));
        if is_a {
            let mut d = doc.to_vec();
            if let N::E(_, attrs, _) = node_at_mut(&mut d, &p) {
                attrs.push(("name".into(), "F".into()));
            }
            out.push(html(&d));
        }
    }
    out
}

/// Variants with two ids (F on one element, G on another) – every ordered pair of an
/// element and one of its descendants, and every pair of adjacent siblings' first elements.
pub fn pair_variants(doc: &[N]) -> Vec<String> {
    let paths = elem_paths(doc);
    let mut out = vec![];
    for a in &paths {
        for b in &paths {
            if b.len() > a.len() && b[..a.len()] == a[..] {
                let mut d = doc.to_vec();
                if let N::E(_, attrs, _) = node_at_mut(&mut d, a) {
                    attrs.push(("id".into(), "F".into()));
                }
                if let N::E(_, attrs, _) = node_at_mut(&mut d, b) {
                    attrs.push(("id".into(), "G".into()));
                }
                out.push(html(&d));
            }
        }
    }
    out
}

struct S {
    docs: Vec<Vec<N>>,
    maxw: usize,
    pair_widths: Vec<usize>,
}
impl Scope for S {
    fn units(&self) -> u64 {
        self.docs.len() as u64
    }
    fn run_unit(&self, unit: u64, cx: &mut Cx) {
        let d = &self.docs[unit as usize];
        let base = html(d);
        for v in variants(d) {
            for w in 1..=self.maxw {
                check(&base, &v, w, cx);
            }
        }
        for v in pair_variants(d) {
            for &w in &self.pair_widths {
                check(&base, &v, w, cx);
            }
        }
    }
    fn info(&self) -> Info {
        Info {
            rule: "grammar documents (tables included) x every element of the document in turn carrying id=\"F\" (anchors also name=\"F\") x every width, and every (element, descendant) pair carrying two ids x a width set, (incl. widths that hard-wrap the first word); expected position from the oracle DOM; exact position oracle for table-free documents, count oracle with tables; non-trivial = the element has visible text".into(),
            bounds: json!({"documents": self.docs.len(), "widths": format!("1..={}", self.maxw)}),
            assumptions: vec!["the statement's 'normally on the same line' is measured (stats) but not required: a marker on the blank line separating two blocks still lies between the preceding text and the element's first character".into()],
        }
    }
}
impl Prop for P {
    fn id(&self) -> &'static str {
        "C14"
    }
    fn build(&self, tier: Tier) -> Box<dyn Scope> {
        let mut docs = block_docs(tier.pick(2, 3), G { tables: true, pre: true, valid_only: true });
        // deeper chains of nested blocks (several block boundaries before the first text)
        for extra in [
            vec![e("div", vec![e("div", vec![e("p", vec![t("qa qb")])])])],
            vec![e("ul", vec![e("li", vec![e("div", vec![e("p", vec![t("qa qb")])])]), e("li", vec![t("qc")])])],
            vec![e("blockquote", vec![e("div", vec![e("ul", vec![e("li", vec![t("qa")])])])])],
            vec![e("div", vec![e("div", vec![e("table", vec![e("tr", vec![e("td", vec![t("qa")])])])])])],
            vec![e("p", vec![t("qz")]), e("div", vec![e("div", vec![e("div", vec![e("h3", vec![t("qa")])])])]), e("p", vec![t("qy")])],
            vec![e("div", vec![e("blockquote", vec![e("ol", vec![e("li", vec![e("p", vec![t("qa")])])])])])],
            // inline elements outside the grammar: superscripts (digits-only ones are rendered with superscript digits),
            // ins / i / s / unknown elements
            vec![e("p", vec![t("qa"), e("sup", vec![t("12")]), t(" qb"), e("sup", vec![t("qc")]), t(" "), e("i", vec![t("qd")]), e("ins", vec![t("qe")]), t(" "), e("s", vec![t("qf")]), e("u", vec![t("qg")])])],
            vec![e("ul", vec![e("li", vec![t("qa qb"), e("sup", vec![t("7")])]), e("li", vec![e("sup", vec![e("em", vec![t("qc")]), t("3")]), t("qd")])])],
            vec![e("blockquote", vec![e("p", vec![t("qa qb qc"), e("sup", vec![ea("a", &[("href", "/1")], vec![t("qd")])]), t(" qe")])])],
        ] {
            docs.push(extra);
        }
        // every depth-1 document preceded, in the same block, by text that ends in white space
        for d in block_docs(1, G { tables: true, pre: true, valid_only: true }) {
            let mut v = vec![e("p", vec![t("qy ")])];
            v.extend(d.clone());
            docs.push(v);
            let mut inner = vec![t("qy\n")];
            inner.extend(d.clone());
            if valid(&[e("div", inner.clone())]) {
                docs.push(vec![e("div", inner.clone())]);
                docs.push(vec![e("blockquote", inner)]);
            }
        }
        // every depth-1 document directly after text *without* white space, in a div, a list
        // item and a quote (the marker is then the trailing element of a pending word), with
        // texts whose last word is shorter than / exactly as long as / longer than typical widths
        for d in block_docs(1, G { tables: true, pre: true, valid_only: true }) {
            for text in ["qy", "ab cdefgh", "abcdefgh ij"] {
                let mut inner = vec![t(text)];
                inner.extend(d.clone());
                if valid(&[e("div", inner.clone())]) {
                    docs.push(vec![e("div", inner.clone())]);
                    docs.push(vec![e("ul", vec![e("li", inner.clone())])]);
                }
            }
        }
        for text in ["ab cdefgh", "qy", "abcdefgh"] {
            docs.push(vec![e("p", vec![t(text), e("span", vec![e("br", vec![]), t("yz")])])]);
            docs.push(vec![e("ul", vec![e("li", vec![t(text), e("ul", vec![e("li", vec![t("x")])])])])]);
            docs.push(vec![e("div", vec![t(text), e("h3", vec![t("T")])])]);
            docs.push(vec![e("blockquote", vec![t(text), e("ol", vec![e("li", vec![t("x")]), e("li", vec![t("y")])])])]);
        }
        Box::new(S { docs, maxw: tier.pick(20, 30), pair_widths: tier.pick(vec![1, 3, 6, 12], vec![1, 2, 3, 5, 8, 12, 20]) })
    }
    fn replay(&self, case: &Value, cx: &mut Cx) {
        check(case["base"].as_str().unwrap_or(""), case["html"].as_str().unwrap_or(""), case["width"].as_u64().unwrap_or(1) as usize, cx);
    }
}
