//! C15 Layout options are orthogonal and do only what they say.
//! Relations between the base rendering and the rendering with one option changed.
use crate::doc::G;
use crate::dom;
use crate::engine::*;
use crate::run::*;
use crate::universe::*;
use crate::util::*;
use serde_json::{json, Value};

pub struct P;
pub static C15: P = P;

struct Facts {
    table_free: bool,
    link_free: bool,
    strike_free: bool,
    pre_free: bool,
}
fn facts(html: &[u8]) -> Facts {
    let d = dom::parse(html);
    Facts {
        table_free: !d.has_elem("table"),
        link_free: !(0..d.nodes.len()).any(|i| d.is_html(i, "a") && d.attr(i, "href").is_some()),
        strike_free: !d.has_elem("del") && !d.has_elem("s"),
        pre_free: !d.has_elem("pre"),
    }
}
fn has_ref(s: &str) -> bool {
    // "[<digits>]"
    let b = s.as_bytes();
    let mut i = 0;
    while i < b.len() {
        if b[i] == b'[' {
            let mut j = i + 1;
            while j < b.len() && b[j].is_ascii_digit() {
                j += 1;
            }
            if j > i + 1 && j < b.len() && b[j] == b']' {
                return true;
            }
        }
        i += 1;
    }
    false
}
/// Splits off the trailing footnote block.  The block is opened with start_block(), i.e. it
/// follows the last empty line of the output (its own lines are never empty: a footnote
/// line starts with "[n]: " and hard-wrapped continuation pieces are non-empty).  When the
/// document has no rendered link this cuts off the last body block instead, identically on
/// both sides of a comparison, which only makes the comparison weaker, never wrong.
fn split_footnotes(s: &str) -> (Vec<&str>, Vec<&str>) {
    let lines: Vec<&str> = s.lines().collect();
    match lines.iter().rposition(|l| l.is_empty()) {
        Some(i) => (lines[..i].to_vec(), lines[i + 1..].to_vec()),
        None => {
            // no empty line: the whole output is either body or (document = links only) footnotes
            if lines.first().map(|l| l.starts_with("[1]")).unwrap_or(false) {
                (vec![], lines)
            } else {
                (lines, vec![])
            }
        }
    }
}
fn delete_refs(s: &str) -> String {
    let mut out = String::new();
    let b: Vec<char> = s.chars().collect();
    let mut i = 0;
    while i < b.len() {
        if b[i] == '[' {
            let mut j = i + 1;
            while j < b.len() && b[j].is_ascii_digit() {
                j += 1;
            }
            if j > i + 1 && j < b.len() && b[j] == ']' {
                i = j + 1;
                continue;
            }
        }
        out.push(b[i]);
        i += 1;
    }
    out
}

pub fn check_doc(html: &[u8], w: usize, dec: &Dec, f: &Facts, cx: &mut Cx) {
    let base_cfg = Cfg::new(dec.clone());
    let base = cx.render(html, w, &base_cfg);
    cx.state(1);
    let fail = |cx: &mut Cx, class: &str, o: &Cfg, r: &Out<String>, base: &Out<String>| {
        let class = format!("{class} [{}]", shape_key(html));
        cx.violation(&class, || json!({"case": case_json(html, w, o), "base_cfg": base_cfg.short(), "base_result": format!("{base:?}"), "option_result": format!("{r:?}"),
            "as_unit_test": format!("#[test] fn c15_replay() {{ let a = {}.string_from_read(&{:?}[..], {}); let b = {}.string_from_read(&{:?}[..], {}); /* violated: {} */ }}", base_cfg.as_rust(), String::from_utf8_lossy(html), w, o.as_rust(), String::from_utf8_lossy(html), w, class)}));
    };
    let run = |cx: &mut Cx, o: Opt| -> (Cfg, Out<String>) {
        let c = base_cfg.clone().with(o);
        let r = cx.render(html, w, &c);
        cx.state(1);
        if !r.is_total() {
            let class = format!("{}: {}", c.short().chars().take(40).collect::<String>(), r.kind());
            cx.violation(&class, || json!({"case": case_json(html, w, &c), "observed": format!("{r:?}")}));
        }
        (c, r)
    };
    let mut relevant = false;

    // max_wrap_width(m >= w) changes nothing
    for m in [w, w + 1, w + 7, usize::MAX] {
        let (c, r) = run(cx, Opt::MaxWrap(m));
        if r != base {
            fail(cx, "max_wrap_width(m >= width) changed the result", &c, &r, &base);
        }
    }
    // max_wrap_width(m < w): text lines are at most m columns beyond their prefix
    if f.table_free {
        for m in [1usize, 3, w.saturating_sub(1)] {
            if m == 0 || m >= w {
                continue;
            }
            let (c, r) = run(cx, Opt::MaxWrap(m));
            if let Out::Ok(s) = &r {
                relevant = true;
                let body: Vec<&str> = if f.link_free || !matches!(dec, Dec::Plain) { s.lines().collect() } else { split_footnotes(s).0 };
                for l in body {
                    let prefix: usize = l.chars().take_while(|&ch| !is_tok(ch)).map(cw).sum();
                    if sw(l) - prefix > m {
                        fail(cx, "max_wrap_width(m): a text line is wider than m beyond its prefix", &c, &r, &base);
                        break;
                    }
                }
            }
            if base == Out::TooNarrow && r.is_ok() && f.pre_free {
                // a narrower wrap width can not make an impossible layout possible
                fail(cx, "max_wrap_width(m < width) turned TooNarrow into Ok", &c, &r, &base);
            }
        }
    }
    // pad_block_width only appends trailing spaces
    {
        let (c, r) = run(cx, Opt::Pad);
        match (&base, &r) {
            (Out::Ok(a), Out::Ok(b)) => {
                let la: Vec<&str> = a.lines().map(|l| l.trim_end_matches(' ')).collect();
                let lb: Vec<&str> = b.lines().map(|l| l.trim_end_matches(' ')).collect();
                if la != lb {
                    fail(cx, "pad_block_width changed more than trailing spaces", &c, &r, &base);
                } else if b.lines().any(|l| sw(l) > w) {
                    fail(cx, "pad_block_width made a line wider than the width", &c, &r, &base);
                }
                if a != b {
                    relevant = true;
                }
            }
            (Out::TooNarrow, Out::TooNarrow) => {}
            _ => fail(cx, "pad_block_width changed whether rendering succeeds", &c, &r, &base),
        }
    }
    // unicode_strikeout(false) only removes the combining strike marks
    {
        let (c, r) = run(cx, Opt::Strike(false));
        match (&base, &r) {
            (Out::Ok(a), Out::Ok(b)) => {
                if &a.replace('\u{336}', "") != b {
                    fail(cx, "unicode_strikeout(false) is not the base output minus U+0336", &c, &r, &base);
                }
                if f.strike_free && a != b {
                    fail(cx, "unicode_strikeout(false) changed a document without struck text", &c, &r, &base);
                }
                if a != b {
                    relevant = true;
                }
            }
            (Out::TooNarrow, Out::TooNarrow) => {}
            _ => fail(cx, "unicode_strikeout changed whether rendering succeeds", &c, &r, &base),
        }
    }
    // no_table_borders / raw_mode: no box drawing characters; no-op without tables
    for (name, o) in [("no_table_borders", Opt::NoBorders), ("raw_mode", Opt::Raw)] {
        let (c, r) = run(cx, o);
        if let Out::Ok(s) = &r {
            if s.chars().any(|ch| "─┬┴┼│".contains(ch)) {
                fail(cx, &format!("{name}: box drawing characters remain"), &c, &r, &base);
            }
            if !f.table_free {
                relevant = true;
            }
        }
        if f.table_free && r != base {
            fail(cx, &format!("{name} changed a table-free document"), &c, &r, &base);
        }
    }
    // link_footnotes
    let footnotes_default = matches!(dec, Dec::Plain);
    {
        let (c, r) = run(cx, Opt::Footnotes(!footnotes_default));
        if f.link_free && r != base {
            fail(cx, "link_footnotes changed a link-free document", &c, &r, &base);
        }
        let (with, without) = if footnotes_default { (&base, &r) } else { (&r, &base) };
        if let Out::Ok(s) = without {
            if s.lines().any(|l| has_ref(l) || l.starts_with("[1]:")) {
                fail(cx, "link_footnotes(false): references or footnote list present", &c, &r, &base);
            }
        }
        if !f.link_free && with.is_ok() && with != without {
            relevant = true;
        }
    }
    // no_link_wrapping: no-op without links, body identical otherwise
    {
        let (c, r) = run(cx, Opt::NoLinkWrap);
        if f.link_free && r != base {
            fail(cx, "no_link_wrapping changed a link-free document", &c, &r, &base);
        }
        if let (Out::Ok(a), Out::Ok(b)) = (&base, &r) {
            if split_footnotes(a).0 != split_footnotes(b).0 {
                fail(cx, "no_link_wrapping changed the body text", &c, &r, &base);
            }
            // ... and its own effect: every footnote entry stands unwrapped on one line, the
            // entries being those the base rendering shows cut at the width
            let (fa, fb) = (split_footnotes(a).1, split_footnotes(b).1);
            if fb.first().map(|l| l.starts_with("[1]: ")).unwrap_or(false) && fa.first().map(|l| l.starts_with("[1]")).unwrap_or(false) {
                let is_entry = |l: &str| l.starts_with('[') && l[1..].find("]: ").map(|i| i > 0 && l[1..1 + i].chars().all(|ch| ch.is_ascii_digit())).unwrap_or(false);
                let squeeze = |v: &Vec<&str>| -> String { v.concat().chars().filter(|ch| !ch.is_whitespace()).collect() };
                if !fb.iter().all(|l| is_entry(l)) || squeeze(&fa) != squeeze(&fb) {
                    fail(cx, "no_link_wrapping: the footnote entries are not the unwrapped entries of the base rendering", &c, &r, &base);
                }
            }
        }
    }
    // min_wrap_width never changes a table-free rendering that succeeds both ways
    if f.table_free {
        for k in [0usize, 1, 6, 10] {
            let (c, r) = run(cx, Opt::MinWrap(k));
            if let (Out::Ok(a), Out::Ok(b)) = (&base, &r) {
                if a != b {
                    fail(cx, "min_wrap_width changed a successful table-free rendering", &c, &r, &base);
                }
            }
        }
    }
    // a setter called with the value the configuration already has is a no-op, alone and after
    // another option (builder state shared between two options)
    {
        let firsts: Vec<Option<Opt>> = vec![None, Some(Opt::NoBorders), Some(Opt::Pad), Some(Opt::NoLinkWrap), Some(Opt::Footnotes(!footnotes_default)), Some(Opt::Strike(false)), Some(Opt::MaxWrap(w.saturating_sub(1).max(1)))];
        for first in firsts {
            let c0 = match &first {
                Some(o) => base_cfg.clone().with(o.clone()),
                None => base_cfg.clone(),
            };
            let r0 = cx.render(html, w, &c0);
            cx.state(1);
            let mut seconds = vec![Opt::RawOff, Opt::MinWrap(3)];
            if !matches!(first, Some(Opt::Strike(_))) {
                seconds.push(Opt::Strike(true));
            }
            if !matches!(first, Some(Opt::Footnotes(_))) {
                seconds.push(Opt::Footnotes(footnotes_default));
            }
            for second in seconds {
                let c1 = c0.clone().with(second);
                let r1 = cx.render(html, w, &c1);
                cx.state(1);
                if r1 != r0 {
                    fail(cx, &format!("a setter called with the default value changed the output: {}", c1.short()), &c1, &r1, &r0);
                }
            }
        }
    }
    if relevant {
        cx.nontrivial();
    }
}

/// At a width where nothing wraps, disabling footnotes = deleting references and the list.
fn check_footnote_deletion(html: &[u8], f: &Facts, cx: &mut Cx) {
    if !f.table_free || f.link_free {
        return;
    }
    let w = 400;
    let a = cx.render(html, w, &Cfg::plain());
    let b = cx.render(html, w, &Cfg::plain().with(Opt::Footnotes(false)));
    cx.state(2);
    if let (Out::Ok(sa), Out::Ok(sb)) = (&a, &b) {
        let (body, _) = split_footnotes(sa);
        let mut del: Vec<String> = body.iter().map(|l| delete_refs(l).trim_end().to_string()).collect();
        while del.last().map(|l| l.is_empty()).unwrap_or(false) {
            del.pop();
        }
        let mut other: Vec<String> = sb.lines().map(|l| l.trim_end().to_string()).collect();
        while other.last().map(|l| l.is_empty()).unwrap_or(false) {
            other.pop();
        }
        if del != other {
            let class = format!("link_footnotes(false) is not the base output minus references and list [{}]", shape_key(html));
            cx.violation(&class, || json!({"case": case_json(html, w, &Cfg::plain().with(Opt::Footnotes(false))), "base_result": sa, "option_result": sb}));
        }
    }
}

struct S {
    docs: Vec<Vec<u8>>,
    maxw: usize,
}
impl Scope for S {
    fn units(&self) -> u64 {
        self.docs.len() as u64
    }
    fn run_unit(&self, unit: u64, cx: &mut Cx) {
        let html = &self.docs[unit as usize];
        let f = facts(html);
        for w in 1..=self.maxw {
            for dec in [Dec::Plain, Dec::Rich] {
                check_doc(html, w, &dec, &f, cx);
            }
        }
        check_footnote_deletion(html, &f, cx);
    }
    fn info(&self) -> Info {
        Info {
            rule: "documents (grammar to the stated depth + seeds + table slice) x every width x {plain, rich} x each option of the property: the stated relation between the base rendering and the rendering with that one option is checked (about 20 executions per (document,width,decorator)); non-trivial = at least one option changed the output of the document (the option is relevant to it)".into(),
            bounds: json!({"documents": self.docs.len(), "widths": format!("1..={}", self.maxw), "options": ["max_wrap_width(w, w+1, w+7, MAX, 1, 3, w-1)", "pad_block_width", "unicode_strikeout(false)", "no_table_borders", "raw_mode", "link_footnotes(flip)", "no_link_wrapping", "min_wrap_width(0,1,6,10)"]}),
            assumptions: vec!["the prefix of a line is approximated from above by its leading run of non-token characters (sound, weaker than exact)".into()],
        }
    }
}
impl Prop for P {
    fn id(&self) -> &'static str {
        "C15"
    }
    fn build(&self, tier: Tier) -> Box<dyn Scope> {
        let g = G { tables: true, pre: true, valid_only: false };
        let mut docs: Vec<Vec<u8>> = doc_universe(tier.pick(2, 3), g, true, false).into_iter().map(|s| s.into_bytes()).collect();
        docs.extend(table_slice(tier.pick(150, 1500)).into_iter().map(|s| s.into_bytes()));
        Box::new(S { docs, maxw: tier.pick(14, 60) })
    }
    fn replay(&self, case: &Value, cx: &mut Cx) {
        let (html, w, cfg) = case_from_json(case);
        let f = facts(&html);
        check_doc(&html, w, &cfg.dec, &f, cx);
        check_footnote_deletion(&html, &f, cx);
    }
}
