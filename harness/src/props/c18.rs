//! C18 display:none hides exactly the matched subtrees.
//! Relation between two executions of the real code: rendering with an element hidden by CSS
//! equals rendering of the document with that subtree deleted.
use crate::doc::*;
use crate::engine::*;
use crate::run::*;
use serde::{Deserialize, Serialize};
use serde_json::{json, Value};

pub struct P;
pub static C18: P = P;

pub const WAYS: [&str; 21] = [
    "class + user sheet .h{display:none}",
    "style=\"display:none\" (document CSS enabled)",
    "style=\"height:0;overflow:hidden\"",
    "id + user sheet #hh{display:none;}",
    "class + <style> element in the document",
    "class + descendant selector body .h",
    "class + agent sheet",
    "style=\"max-height:0px; overflow-y:hidden\"",
    "NOT hidden: class + sheet .h .h{display:none} (no ancestor has the class)",
    "NOT hidden: class + sheet .h > .h{display:none}",
    "NOT hidden: class + sheet .h:nth-child(99){display:none}",
    "class + descendant selector starting with a type: html .h{display:none}",
    "class + sheet T .h{display:none} with T the element's own tag (hidden exactly when an ancestor is a T)",
    "class + selector list #nomatch, .h, p.zz{display:none}",
    "a class name using every identifier character: .h0123456789_-azAZ{display:none}",
    "descendant selector with a compound ancestor: T.w .h{display:none}, T the outermost ancestor's tag, every ancestor carrying class w",
    "NOT hidden: style=\"overflow:hidden\" alone (half of the zero-height idiom)",
    "NOT hidden: style=\"height:0\" alone (half of the zero-height idiom)",
    "style=\"max-height:0;height:40px;overflow:hidden\" (a later non-zero length of the *other* height property)",
    "style=\"height:0;max-height:200px;overflow-y:hidden\"",
    "class list separated by tab / newline (class=\"zz<TAB>h<LF>yy\") + user sheet .h{display:none}",
];

#[derive(Serialize, Deserialize)]
struct Case {
    marked: String,
    deleted: String,
    original: String,
    way: usize,
    width: usize,
    rich: bool,
    /// way 12: the element's tag and whether the sheet designates it
    #[serde(default)]
    tag: String,
    #[serde(default)]
    designated: bool,
}

fn mark(d: &[N], p: &[usize], way: usize) -> String {
    let mut dm = d.to_vec();
    if way == 15 {
        // every proper ancestor gets class w (so the nearest ancestor satisfies part of the
        // compound even when its tag differs from the outermost ancestor's)
        for k in 1..p.len() {
            if let N::E(_, attrs, _) = node_at_mut(&mut dm, &p[..k]) {
                attrs.push(("class".into(), "w".into()));
            }
        }
    }
    if let N::E(_, attrs, _) = node_at_mut(&mut dm, p) {
        match way {
            0 | 4 | 5 | 6 | 8 | 9 | 10 | 11 | 12 | 13 => attrs.push(("class".into(), "h".into())),
            14 => attrs.push(("class".into(), "h0123456789_-azAZ".into())),
            15 => attrs.push(("class".into(), "h".into())),
            16 => attrs.push(("style".into(), "overflow:hidden".into())),
            17 => attrs.push(("style".into(), "height:0".into())),
            1 => attrs.push(("style".into(), "display:none".into())),
            2 => attrs.push(("style".into(), "height:0;overflow:hidden".into())),
            3 => attrs.push(("id".into(), "hh".into())),
            20 => attrs.push(("class".into(), "zz\th\nyy".into())),
            18 => attrs.push(("style".into(), "max-height:0;height:40px;overflow:hidden".into())),
            19 => attrs.push(("style".into(), "height:0;max-height:200px;overflow-y:hidden".into())),
            _ => attrs.push(("style".into(), "max-height:0px; overflow-y:hidden".into())),
        }
    }
    let h = html(&dm);
    if way == 4 {
        format!("<style>.h{{display:none}}</style>{h}")
    } else {
        h
    }
}
fn delete(d: &[N], p: &[usize], way: usize) -> String {
    if (8..=10).contains(&way) {
        // the selector matches nothing: the expectation is the document itself
        return mark(d, p, way);
    }
    let mut dd = d.to_vec();
    if way == 15 {
        for k in 1..p.len() {
            if let N::E(_, attrs, _) = node_at_mut(&mut dd, &p[..k]) {
                attrs.push(("class".into(), "w".into()));
            }
        }
    }
    // the subtree is replaced by an empty comment, so the text nodes on either side stay
    // separate nodes exactly as when the element is merely hidden
    *node_at_mut(&mut dd, p) = N::C(String::new());
    let h = html(&dd);
    if way == 4 {
        format!("<style>.h{{display:none}}</style>{h}")
    } else {
        h
    }
}
fn cfg_for(way: usize, rich: bool, tag: &str) -> Cfg {
    let base = if rich { Cfg::rich() } else { Cfg::plain() };
    let base = base.with(Opt::DocCss);
    match way {
        0 | 20 => base.with(Opt::UserCss(".h{display:none}".into())),
        3 => base.with(Opt::UserCss("#hh{display:none;}".into())),
        5 => base.with(Opt::UserCss("body .h { display: none }".into())),
        6 => base.with(Opt::AgentCss(".h{display:none}".into())),
        8 => base.with(Opt::UserCss(".h .h{display:none}".into())),
        9 => base.with(Opt::UserCss(".h > .h { display: none }".into())),
        10 => base.with(Opt::UserCss(".h:nth-child(99){display:none}".into())),
        11 => base.with(Opt::UserCss("html .h{display:none}".into())),
        13 => base.with(Opt::UserCss("#nomatch, .h, p.zz{display:none}".into())),
        14 => base.with(Opt::UserCss(".h0123456789_-azAZ{display:none}".into())),
        // `tag` holds the outermost ancestor's tag for this way (empty: no ancestor)
        15 if !tag.is_empty() => base.with(Opt::UserCss(format!("{tag}.w .h{{display:none}}"))),
        15 => base.with(Opt::UserCss(".h{display:none}".into())),
        12 => base.with(Opt::UserCss(format!("{tag} .h{{display:none}}"))),
        _ => base,
    }
}

fn check(c: &Case, tag: &str, cx: &mut Cx) {
    let cfg = cfg_for(c.way, c.rich, &c.tag);
    if c.way == 16 || c.way == 17 {
        // half of the idiom styles nothing: the document renders as without the attribute
        let a = cx.render(c.marked.as_bytes(), c.width, &cfg);
        let b = cx.render(c.original.as_bytes(), c.width, &cfg);
        cx.state(2);
        if a.is_ok() {
            cx.set_case_hash(crate::util::h64_parts(&[c.marked.as_bytes(), &c.width.to_le_bytes(), &[c.way as u8, c.rich as u8]]));
            cx.nontrivial();
        }
        if a != b {
            let class = format!("<{tag}> changed although only half of the idiom is present: {}", WAYS[c.way]);
            cx.violation(&class, || json!({"case": serde_json::to_value(c).unwrap(), "cfg": cfg.as_rust(), "with_attribute": format!("{a:?}"), "without": format!("{b:?}")}));
        }
        return;
    }
    if (8..=10).contains(&c.way) || (c.way == 12 && !c.designated) {
        // a sheet whose selector matches no element must change nothing
        let plain_cfg = if c.rich { Cfg::rich() } else { Cfg::plain() }.with(Opt::DocCss);
        let a = cx.render(c.marked.as_bytes(), c.width, &cfg);
        let b = cx.render(c.marked.as_bytes(), c.width, &plain_cfg);
        cx.state(2);
        if a.is_ok() {
            cx.set_case_hash(crate::util::h64_parts(&[c.marked.as_bytes(), &c.width.to_le_bytes(), &[c.way as u8, c.rich as u8]]));
            cx.nontrivial();
        }
        if a != b {
            let class = format!("<{tag}> hidden although no rule matches it: {}", WAYS[c.way]);
            cx.violation(&class, || json!({"case": serde_json::to_value(c).unwrap(), "cfg": cfg.as_rust(), "with_sheet": format!("{a:?}"), "without_sheet": format!("{b:?}")}));
        }
        return;
    }
    let (a, b) = if c.rich {
        (cx.render_lines(c.marked.as_bytes(), c.width, &cfg).map(|l| format!("{l:?}")), cx.render_lines(c.deleted.as_bytes(), c.width, &cfg).map(|l| format!("{l:?}")))
    } else {
        (cx.render(c.marked.as_bytes(), c.width, &cfg), cx.render(c.deleted.as_bytes(), c.width, &cfg))
    };
    cx.state(2);
    if a.is_ok() {
        cx.set_case_hash(crate::util::h64_parts(&[c.marked.as_bytes(), &c.width.to_le_bytes(), &[c.way as u8, c.rich as u8]]));
        cx.nontrivial();
    }
    if a != b {
        let kind = match (&a, &b) {
            (Out::Ok(_), Out::Ok(_)) => "output differs from the document with the subtree deleted",
            (Out::TooNarrow, Out::Ok(_)) | (Out::Ok(_), Out::TooNarrow) => "success differs from the document with the subtree deleted",
            _ => "unexpected result",
        };
        let class = format!("hidden <{tag}> via {}: {kind}", WAYS[c.way]);
        cx.violation(&class, || json!({"case": serde_json::to_value(c).unwrap(), "cfg": cfg.as_rust(), "hidden_result": format!("{a:?}"), "deleted_result": format!("{b:?}"),
            "as_unit_test": format!("#[test] fn c18_replay() {{ let a = {}.string_from_read({:?}.as_bytes(), {}); let b = {}.string_from_read({:?}.as_bytes(), {}); assert_eq!(a.ok(), b.ok()); }}", cfg.as_rust(), c.marked, c.width, cfg.as_rust(), c.deleted, c.width)}));
    }
    // styles written in the document have no effect unless document CSS is enabled
    if matches!(c.way, 1 | 2 | 4 | 7 | 18 | 19) && !c.rich {
        let off = Cfg::plain();
        let x = cx.render(c.marked.as_bytes(), c.width, &off);
        let y = cx.render(c.original.as_bytes(), c.width, &off);
        cx.state(2);
        if x != y {
            let class = format!("document CSS disabled but {} has an effect", WAYS[c.way]);
            cx.violation(&class, || json!({"case": serde_json::to_value(c).unwrap(), "with_style": format!("{x:?}"), "without": format!("{y:?}")}));
        }
    }
}

struct S {
    docs: Vec<Vec<N>>,
    widths: Vec<usize>,
    ways: Vec<usize>,
}
impl Scope for S {
    fn units(&self) -> u64 {
        self.docs.len() as u64
    }
    fn run_unit(&self, unit: u64, cx: &mut Cx) {
        let d = &self.docs[unit as usize];
        let original = html(d);
        for p in elem_paths(d) {
            let tag = tag_of(node_at(d, &p)).to_string();
            for &way in &self.ways {
                let marked = mark(d, &p, way);
                let deleted = delete(d, &p, way);
                // way 12: an ancestor with the element's own tag
                let designated = (1..p.len()).any(|k| tag_of(node_at(d, &p[..k])) == tag);
                for &width in &self.widths {
                    for rich in [false, true] {
                        if rich && way != 0 {
                            continue;
                        }
                        let case_tag = if way == 15 { if p.len() > 1 { tag_of(node_at(d, &p[..1])).to_string() } else { String::new() } } else { tag.clone() };
                        check(&Case { marked: marked.clone(), deleted: deleted.clone(), original: original.clone(), way, width, rich, tag: case_tag, designated }, &tag, cx);
                    }
                }
            }
        }
    }
    fn info(&self) -> Info {
        Info {
            rule: "valid grammar documents (tables, lists, links, pre, images) x every element of the document hidden in turn x the listed ways of hiding x widths; each case is a pair of executions (hidden vs subtree deleted in the DOM, i.e. replaced by an empty comment), plain string output and (for the class way) rich line output incl. fragment markers; plus document-CSS-off pairs; non-trivial = the hidden rendering succeeds".into(),
            bounds: json!({"documents": self.docs.len(), "ways": self.ways.iter().map(|&w| WAYS[w]).collect::<Vec<_>>(), "widths": self.widths}),
            assumptions: vec!["deletion keeps an empty comment in place of the subtree so that neighbouring text nodes are not merged (finding KF-C13-1 would otherwise interfere)".into()],
        }
    }
}
impl Prop for P {
    fn id(&self) -> &'static str {
        "C18"
    }
    fn build(&self, tier: Tier) -> Box<dyn Scope> {
        let docs = block_docs(tier.pick(2, 3), G { tables: true, pre: true, valid_only: true });
        let docs: Vec<Vec<N>> = if tier == Tier::Thorough { docs.into_iter().step_by(2).collect() } else { docs };
        Box::new(S { docs, widths: tier.pick(vec![1, 2, 3, 4, 5, 6, 8, 10, 14, 20], (1..=24).chain([30, 40, 60, 100]).collect()), ways: tier.pick(vec![0, 1, 2, 3, 4, 8, 9, 11, 12, 13, 14, 15, 16, 17, 18, 19, 20], (0..21).collect()) })
    }
    fn replay(&self, case: &Value, cx: &mut Cx) {
        let c: Case = serde_json::from_value(case.clone()).expect("C18 case");
        check(&c, "?", cx);
    }
}
