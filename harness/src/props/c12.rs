//! C12 Preformatted text keeps its lines and spacing.
//! Reference = 8-column tab expander; exhaustive over short pre blocks built from a menu of
//! line shapes x contexts x widths.
use crate::engine::*;
use crate::run::*;
use crate::util::*;
use serde::{Deserialize, Serialize};
use serde_json::{json, Value};

pub struct P;
pub static C12: P = P;

pub const ATOMS: [&str; 16] = ["", "ab", "ab cd", "  ab", "ab  ", "a\tb", "\tab", "ab\t", "中a 中", "abcdefgh", "a   b", " ", "abcdefg\tx", "中中中中中abcd", "abcdefg hi j kl", "ab cd ef gh"];
const CTXS: [(&str, &str, &str, usize); 3] = [("top", "<pre>", "</pre>", 0), ("li", "<ul><li><pre>", "</pre></li></ul>", 2), ("quote", "<blockquote><pre>", "</pre></blockquote>", 2)];
const VARIANTS: [&str; 7] = ["text", "first word of each line in <b>", "lines separated by <br>", "lines separated by newline + <br> (a blank line between)", "lines separated by <br> + newline", "tail of each word in <i> (tag boundary inside the word)", "every white-space run and every line break in a <span> of its own"];

pub fn expand(l: &str) -> String {
    let mut out = String::new();
    let mut col = 0;
    for c in l.chars() {
        if c == '\t' {
            let n = 8 - col % 8;
            for _ in 0..n {
                out.push(' ');
            }
            col += n;
        } else {
            out.push(c);
            col += cw(c);
        }
    }
    out
}

#[derive(Serialize, Deserialize, Clone)]
struct Case {
    lines: Vec<String>,
    ctx: usize,
    variant: usize,
    width: usize,
}
fn build_html(c: &Case) -> String {
    let (_, open, close, _) = CTXS[c.ctx];
    let lines: Vec<String> = c
        .lines
        .iter()
        .map(|l| {
            if c.variant == 1 {
                // wrap the first run of non-blank characters
                let start = l.find(|ch: char| !ch.is_whitespace());
                match start {
                    Some(s) => {
                        let rest = &l[s..];
                        let end = rest.find(|ch: char| ch.is_whitespace()).unwrap_or(rest.len());
                        format!("{}<b>{}</b>{}", &l[..s], &rest[..end], &rest[end..])
                    }
                    None => l.clone(),
                }
            } else if c.variant == 5 {
                // every run of non-blank characters: untagged head, <i> tail
                let mut out = String::new();
                let mut word = String::new();
                let flush = |word: &mut String, out: &mut String| {
                    let n = word.chars().count();
                    if n >= 2 {
                        let head: String = word.chars().take(n - n / 3 - if n / 3 == 0 { 1 } else { 0 }).collect();
                        let tail: String = word.chars().skip(head.chars().count()).collect();
                        out.push_str(&format!("{head}<i>{tail}</i>"));
                    } else {
                        out.push_str(word);
                    }
                    word.clear();
                };
                for ch in l.chars() {
                    if ch.is_whitespace() {
                        flush(&mut word, &mut out);
                        out.push(ch);
                    } else {
                        word.push(ch);
                    }
                }
                flush(&mut word, &mut out);
                out
            } else if c.variant == 6 {
                let mut out = String::new();
                let mut in_ws = false;
                for ch in l.chars() {
                    let ws = ch == ' ' || ch == '\t';
                    if ws && !in_ws {
                        out.push_str("<span>");
                    } else if !ws && in_ws {
                        out.push_str("</span>");
                    }
                    in_ws = ws;
                    out.push(ch);
                }
                if in_ws {
                    out.push_str("</span>");
                }
                out
            } else {
                l.clone()
            }
        })
        .collect();
    let body = match c.variant {
        2 => lines.join("<br>"),
        3 => lines.join("\n<br>"),
        4 => lines.join("<br>\n"),
        6 => lines.join("<span>\n</span>"),
        _ => lines.join("\n"),
    };
    format!("{open}{body}{close}")
}

/// Model of how the *current* implementation decides the Preformat continuation flag
/// (finding KF-C12-1: per character while text is scanned, sticky within one text node, reset
/// when a word is flushed, not switched when white space triggers the wrap).  It only defines
/// what the known finding excuses: an output that differs from the property's expectation is
/// a known finding exactly when it equals this model, and a violation otherwise.
struct FlagModel {
    width: usize,
    line_len: usize,
    line_has_items: bool,
    wslen: usize,
    wordlen: usize,
    word: Vec<usize>, // display widths of the characters of the pending word
    pre_wrapped: bool,
    flags: Vec<bool>,
}
impl FlagModel {
    fn new(width: usize) -> FlagModel {
        FlagModel { width, line_len: 0, line_has_items: false, wslen: 0, wordlen: 0, word: vec![], pre_wrapped: false, flags: vec![] }
    }
    fn reset_block(&mut self) {
        let flags = std::mem::take(&mut self.flags);
        *self = FlagModel::new(self.width);
        self.flags = flags;
    }
    fn flush_line(&mut self) {
        if self.line_has_items {
            self.line_len = 0;
            self.line_has_items = false;
        }
    }
    fn push_ws(&mut self, n: usize) {
        if n > 0 {
            self.line_len += n;
            self.line_has_items = true;
        }
    }
    fn flush_word(&mut self) {
        if !self.word.is_empty() {
            self.pre_wrapped = false;
            let space_in_line = self.width - self.line_len;
            let space_needed = self.wslen + self.wordlen;
            if space_needed <= space_in_line {
                let n = self.wslen;
                self.push_ws(n);
                self.wslen = 0;
                self.line_len += self.wordlen;
                self.line_has_items = true;
                self.word.clear();
            } else {
                if self.wslen >= space_in_line {
                    self.wslen -= space_in_line;
                } else if self.wslen > 0 {
                    let n = self.wslen;
                    self.push_ws(n);
                    self.wslen = 0;
                }
                self.flush_line();
                self.pre_wrapped = true;
                while self.wslen > 0 {
                    let to_copy = self.wslen.min(self.width);
                    self.push_ws(to_copy);
                    if to_copy == self.width {
                        self.flush_line();
                    }
                    self.wslen -= to_copy;
                }
                // hard wrap: greedy, character by character
                let mut lineleft = self.width - self.line_len;
                for cw in std::mem::take(&mut self.word) {
                    if cw > lineleft {
                        self.flush_line();
                        lineleft = self.width;
                    }
                    lineleft = lineleft.saturating_sub(cw);
                    self.line_len = self.width - lineleft;
                    self.line_has_items = true;
                }
            }
        }
        self.wordlen = 0;
    }
    fn add_text(&mut self, text: &str) {
        let mut wrap = self.pre_wrapped;
        for c in text.chars() {
            if c.is_whitespace() && self.wordlen > 0 {
                self.flush_word();
            }
            if c.is_whitespace() {
                match c {
                    '\n' => {
                        self.line_len = 0;
                        self.line_has_items = false;
                        self.wslen = 0;
                        self.pre_wrapped = false;
                        wrap = false;
                    }
                    '\t' => {
                        let mut pos = self.line_len + self.wslen;
                        let mut at_least_one_space = false;
                        while pos % 8 != 0 || !at_least_one_space {
                            if pos >= self.width {
                                self.flush_line();
                                pos = 0;
                            } else {
                                self.line_len += 1;
                                self.line_has_items = true;
                                pos += 1;
                                at_least_one_space = true;
                            }
                        }
                    }
                    _ => {
                        let cwidth = cw(c);
                        if self.line_len + self.wslen + cwidth > self.width {
                            self.wslen = 0;
                            self.flush_line();
                            self.wslen += cwidth;
                            self.pre_wrapped = true;
                        } else {
                            self.wslen += cwidth;
                        }
                    }
                }
            } else {
                let cwidth = cw(c);
                self.wordlen += cwidth;
                if self.line_len + self.wslen + self.wordlen > self.width {
                    self.pre_wrapped = true;
                    wrap = true;
                }
                self.word.push(cwidth);
                self.flags.push(wrap);
            }
        }
    }
}
/// The flags the model predicts for every non-blank character of the <pre> block of `html`.
fn model_flags(html: &str, avail: usize) -> Vec<bool> {
    use crate::dom::{self, Data};
    let d = dom::parse(html.as_bytes());
    let pre = match (0..d.nodes.len()).find(|&i| d.is_html(i, "pre")) {
        Some(p) => p,
        None => return vec![],
    };
    fn walk(d: &crate::dom::Dom, i: usize, m: &mut FlagModel) {
        match &d.nodes[i].data {
            Data::Text(t) => m.add_text(t),
            Data::Elem(l, _, _) if l == "br" => {
                m.flush_word();
                m.reset_block();
            }
            _ => {
                for &k in &d.nodes[i].kids {
                    walk(d, k, m);
                }
            }
        }
    }
    let mut m = FlagModel::new(avail);
    walk(&d, pre, &mut m);
    m.flags
}

fn check(c: &Case, cx: &mut Cx) {
    let html = build_html(c);
    let (ctxname, _, _, pfx) = CTXS[c.ctx];
    let w = c.width;
    let r = cx.render_lines(html.as_bytes(), w, &Cfg::rich());
    cx.state(c.lines.len() as u64 + 1);
    let lines = match &r {
        Out::Ok(l) => l,
        Out::TooNarrow => return,
        other => {
            cx.violation(&format!("{ctxname}: {}", other.kind()), || json!({"case": serde_json::to_value(c).unwrap(), "html": html, "observed": format!("{other:?}")}));
            return;
        }
    };
    if w <= pfx {
        return;
    }
    let avail = w - pfx;
    let fail = |cx: &mut Cx, class: &str, extra: Value| {
        let class = format!("{ctxname}, {}: {class}", VARIANTS[c.variant]);
        cx.violation(&class, || json!({"case": serde_json::to_value(c).unwrap(), "html": html, "output": lines_text(lines), "detail": extra,
            "as_unit_test": format!("#[test] fn c12_replay() {{ let ls = html2text::config::rich().lines_from_read({html:?}.as_bytes(), {w}).unwrap(); /* {class} */ }}")}));
    };
    let out: Vec<String> = lines.iter().map(|l| line_text(l).chars().skip(pfx).collect()).collect();
    // the HTML parser drops a newline that directly follows <pre>
    // source lines as the browser sees them: <br> is a line break like a newline
    let mut src: Vec<String> = vec![];
    for (i, l) in c.lines.iter().enumerate() {
        if i > 0 && matches!(c.variant, 3 | 4) {
            src.push(String::new());
        }
        src.push(l.clone());
    }
    if !matches!(c.variant, 2 | 4 | 6) && src.len() > 1 && src[0].is_empty() {
        src.remove(0);
    }
    let exp: Vec<String> = src.iter().map(|l| expand(l)).collect();
    let maxlen = exp.iter().map(|l| sw(l)).max().unwrap_or(0);
    let trim_tail = |mut v: Vec<String>| {
        while v.last().map(|l| l.trim_end().is_empty()).unwrap_or(false) {
            v.pop();
        }
        v
    };
    for l in lines {
        if sw(&line_text(l)) > w {
            fail(cx, "a line is wider than the width", json!(line_text(l)));
            return;
        }
    }
    if maxlen <= avail {
        cx.stat("fits");
        let e2 = trim_tail(exp.iter().map(|l| l.trim_end().to_string()).collect());
        let o2 = trim_tail(out.iter().map(|l| l.trim_end().to_string()).collect());
        if e2 != o2 {
            fail(cx, "block that fits is not reproduced line for line", json!({"expected": e2, "observed": o2}));
            return;
        }
        // only line-trailing *spaces* are removed: trailing blanks in the output need a tab
        let o_raw = trim_tail(out.clone());
        for (i, l) in o_raw.iter().enumerate() {
            if l.ends_with(' ') && !src.get(i).map(|s| s.trim_end_matches(' ').ends_with('\t')).unwrap_or(false) {
                fail(cx, "line-trailing spaces were kept", json!({"line": l, "index": i}));
                return;
            }
        }
        // all first pieces: Preformat(false)
        for l in lines {
            for p in l {
                if let Piece::Str(s, tags) = p {
                    if s.chars().any(|ch| !ch.is_whitespace()) && tags.iter().any(|t| t == "Preformat(true)") && !tags.is_empty() && s.chars().any(|ch| ch.is_alphabetic()) {
                        fail(cx, "continuation tag on a line that fits", json!({"piece": s, "tags": tags}));
                        return;
                    }
                }
            }
        }
    } else {
        cx.stat("does not fit");
        cx.nontrivial();
        let en: String = exp.concat().chars().filter(|ch| !ch.is_whitespace()).collect();
        let on: String = out.concat().chars().filter(|ch| !ch.is_whitespace()).collect();
        if en != on {
            fail(cx, "non-space characters lost, duplicated or reordered", json!({"expected": en, "observed": on}));
            return;
        }
        // tags: first piece of each source line Preformat(false), later pieces Preformat(true)
        let srcns: Vec<usize> = exp.iter().map(|l| l.chars().filter(|ch| !ch.is_whitespace()).count()).collect();
        let mut li = 0usize;
        let mut consumed = 0usize;
        let mut first_piece = true;
        let mut strict_ok = true;
        let mut observed_flags: Vec<bool> = vec![];
        let mut why = Value::Null;
        for l in lines {
            let mut line_ns = 0usize;
            let mut tags: Vec<bool> = vec![];
            for p in l {
                if let Piece::Str(s, t) = p {
                    let cnt = s.chars().filter(|ch| !ch.is_whitespace()).count();
                    // the block prefix ("* ", "> ") carries no Preformat tag
                    let pre = t.iter().find_map(|x| if x == "Preformat(false)" { Some(false) } else if x == "Preformat(true)" { Some(true) } else { None });
                    if let Some(b) = pre {
                        for _ in 0..cnt {
                            tags.push(b);
                        }
                        line_ns += cnt;
                    }
                }
            }
            observed_flags.extend(tags.iter().copied());
            if line_ns == 0 {
                continue;
            }
            while li < srcns.len() && consumed >= srcns[li] {
                li += 1;
                consumed = 0;
                first_piece = true;
            }
            if li >= srcns.len() {
                break;
            }
            let want = !first_piece;
            if tags.iter().any(|&b| b != want) {
                strict_ok = false;
                if why.is_null() {
                    why = json!({"line": line_text(l), "want_continuation": want, "tags": tags, "source_line": src[li]});
                }
            }
            consumed += line_ns;
            first_piece = false;
        }
        if !strict_ok {
            // KF-C12-1 excuses exactly the flags the current implementation is known to
            // produce (FlagModel); anything else is a different violation
            let model = model_flags(&html, avail);
            if observed_flags == model {
                cx.known("KF-C12-1", || json!({"case": serde_json::to_value(c).unwrap(), "html": html, "detail": why}));
            } else {
                let first = observed_flags.iter().zip(model.iter()).position(|(a, b)| a != b);
                fail(cx, "Preformat tags do not follow first/continuation pieces (and differ from the known finding's footprint)", json!({"first_expectation_failure": why, "observed_flags": observed_flags, "known_finding_model": model, "first_difference_at_character": first}));
            }
        }
    }
}

struct S {
    tier: Tier,
    maxk: usize,
    offsets: Vec<u64>,
    /// extra units: one-line blocks built from every token sequence of bounded length
    gram_len: usize,
}
/// Line tokens: a line is any sequence of these (spaces before and after tabs, runs of
/// spaces, wide characters at any column).
const LINE_TOKENS: [&str; 6] = ["a", "bc", " ", "  ", "\t", "\u{4e2d}"];
fn gram_units(len: usize) -> u64 {
    (1..=len).map(|k| (LINE_TOKENS.len() as u64).pow(k as u32)).sum()
}
fn gram_line(mut code: u64, maxlen: usize) -> String {
    for k in 1..=maxlen {
        let n = (LINE_TOKENS.len() as u64).pow(k as u32);
        if code < n {
            return decode(code, &vec![LINE_TOKENS.len(); k]).iter().map(|&i| LINE_TOKENS[i]).collect();
        }
        code -= n;
    }
    unreachable!()
}
impl Scope for S {
    fn units(&self) -> u64 {
        *self.offsets.last().unwrap() + gram_units(self.gram_len)
    }
    fn run_unit(&self, unit: u64, cx: &mut Cx) {
        if unit >= *self.offsets.last().unwrap() {
            let line = gram_line(unit - *self.offsets.last().unwrap(), self.gram_len);
            for second in [None, Some("xy")] {
                let mut lines = vec![line.clone()];
                lines.extend(second.map(|x| x.to_string()));
                for ctx in 0..CTXS.len() {
                    for variant in [0usize, 5] {
                        for width in 1..=self.tier.pick(20, 40) {
                            check(&Case { lines: lines.clone(), ctx, variant, width }, cx);
                        }
                    }
                }
            }
            return;
        }
        let k = (1..=self.maxk).find(|&k| unit < self.offsets[k]).unwrap();
        let code = unit - self.offsets[k - 1];
        let idx = decode(code, &vec![ATOMS.len(); k]);
        let lines: Vec<String> = idx.iter().map(|&i| ATOMS[i].to_string()).collect();
        let maxw = self.tier.pick(18, if k <= 2 { 60 } else if k == 3 { 30 } else { 18 });
        let nvar = self.tier.pick(if k <= 2 { VARIANTS.len() } else { 2 }, VARIANTS.len());
        for ctx in 0..CTXS.len() {
            for variant in 0..nvar {
                for width in 1..=maxw {
                    check(&Case { lines: lines.clone(), ctx, variant, width }, cx);
                }
            }
        }
    }
    fn info(&self) -> Info {
        Info {
            rule: "every pre block of up to maxk lines over 16 line shapes (empty, words, a long word followed by short ones, leading/trailing/interior spaces, tabs at start/middle/end and across column 8, wide characters, a full-width word, spaces only) x {top level, list item, quote} x {plain text, first word in <b>, <br> / newline+<br> / <br>+newline as separators} x every width; plus every line that is a sequence of <= 4 (thorough: 5) tokens from {a, bc, one space, two spaces, tab, wide character}, alone and followed by a second line; non-trivial = some source line does not fit".into(),
            bounds: json!({"line_shapes": ATOMS, "max_lines": self.maxk, "contexts": ["top", "li", "quote"], "variants": VARIANTS, "widths": self.tier.pick("1..=18", "1..=60 (<=2 lines), 1..=30 (3 lines), 1..=18 (4 lines)")}),
            assumptions: vec!["rich decorator; tab stops every 8 columns counted from the start of the block's own width".into()],
        }
    }
}
impl Prop for P {
    fn id(&self) -> &'static str {
        "C12"
    }
    fn build(&self, tier: Tier) -> Box<dyn Scope> {
        let maxk = tier.pick(3, 4);
        let mut offsets = vec![0u64];
        for k in 1..=maxk {
            offsets.push(offsets[k - 1] + (ATOMS.len() as u64).pow(k as u32));
        }
        Box::new(S { tier, maxk, offsets, gram_len: tier.pick(4, 5) })
    }
    fn replay(&self, case: &Value, cx: &mut Cx) {
        let c: Case = serde_json::from_value(case.clone()).expect("C12 case");
        check(&c, cx);
    }
}
