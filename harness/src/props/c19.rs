//! C19 Competing declarations are resolved by the CSS cascade.
//! Exhaustive over pairs / triples of declarations (origin x importance x specificity class
//! x source order) on one element, and over all small sheets on a three-deep ancestor chain,
//! against a reference cascade.
use crate::engine::*;
use crate::run::*;
use crate::util::decode;
use serde::{Deserialize, Serialize};
use serde_json::{json, Value};

pub struct P;
pub static C19: P = P;

#[derive(Clone, Copy, Debug, PartialEq, Eq, Serialize, Deserialize)]
pub enum Origin {
    Agent,
    User,
    Author,
    Inline,
}
#[derive(Clone, Copy, Debug, Serialize, Deserialize)]
pub struct Decl {
    origin: Origin,
    important: bool,
    sel: usize,
}
/// selector, (ids, classes, types)
const SELS: [(&str, (u32, u32, u32)); 7] = [
    ("p", (0, 0, 1)),
    (".c", (0, 1, 0)),
    ("#i", (1, 0, 0)),
    ("p.c", (0, 1, 1)),
    ("p:nth-child(1)", (0, 1, 1)),
    // eleven class components: still below one id (tiers do not carry over)
    (".c.c.c.c.c.c.c.c.c.c.c", (0, 11, 0)),
    // eleven type components on a descendant chain: still below one class
    ("html body div div div div div div div div p", (0, 0, 11)),
];
/// Four colours that together use every hex digit, in both letter cases.
const COLS: [&str; 4] = ["#102938", "#4a5B6c", "#7D8e9F", "#f0E1d2"];

/// Reference cascade rank: (importance/origin class, inline, specificity, source index).
fn rank(d: &Decl, idx: usize) -> (u32, u32, (u32, u32, u32), usize) {
    let class = match (d.origin, d.important) {
        (Origin::Agent, false) => 0,
        (Origin::User, false) => 1,
        (Origin::Author, false) | (Origin::Inline, false) => 2,
        (Origin::Author, true) | (Origin::Inline, true) => 3,
        (Origin::User, true) => 4,
        (Origin::Agent, true) => 5,
    };
    let inline = if d.origin == Origin::Inline { 1 } else { 0 };
    (class, inline, if inline == 1 { (0, 0, 0) } else { SELS[d.sel].1 }, idx)
}
pub fn all_decls() -> Vec<Decl> {
    let mut all = vec![];
    for origin in [Origin::Agent, Origin::User, Origin::Author] {
        for important in [false, true] {
            for sel in 0..SELS.len() {
                all.push(Decl { origin, important, sel });
            }
        }
    }
    for important in [false, true] {
        all.push(Decl { origin: Origin::Inline, important, sel: 0 });
    }
    all
}

#[derive(Serialize, Deserialize)]
struct Case {
    decls: Vec<Decl>,
    /// colour index of each declaration (default: its position); a repeated index makes two
    /// declarations textually identical when their kinds are equal
    #[serde(default)]
    colours: Vec<usize>,
    prop: String,
    /// same-origin declarations in separate sheets (two add_css calls / two <style> elements)
    split: bool,
    /// with `split`: the author sheets are <style> elements scattered over the document (the first in
    /// <head>, the others together inside a later <div> of the body) instead of adjacent siblings
    #[serde(default)]
    scatter: bool,
}

fn colour_of(lines: &Lines, ch: char, what: &str) -> Option<String> {
    for l in lines {
        for p in l {
            if let Piece::Str(s, tags) = p {
                if s.contains(ch) {
                    return tags.iter().rev().find(|t| t.starts_with(what)).cloned();
                }
            }
        }
    }
    None
}
fn dbg_colour(what: &str, hex: &str) -> String {
    let v = u32::from_str_radix(&hex[1..], 16).unwrap();
    format!("{what}(Colour {{ r: {}, g: {}, b: {} }})", (v >> 16) & 255, (v >> 8) & 255, v & 255)
}

fn check_decls(c: &Case, cx: &mut Cx) {
    let what = if c.prop == "color" { "Colour" } else { "BgColour" };
    let mut agent: Vec<String> = vec![];
    let mut user: Vec<String> = vec![];
    let mut author: Vec<String> = vec![];
    let mut inline = String::new();
    let colour = |k: usize| c.colours.get(k).copied().unwrap_or(k);
    for (k, d) in c.decls.iter().enumerate() {
        let imp = if d.important { " !important" } else { "" };
        let rule = format!("{} {{ {}: {}{}; }}", SELS[d.sel].0, c.prop, COLS[colour(k)], imp);
        match d.origin {
            Origin::Agent => agent.push(rule),
            Origin::User => user.push(rule),
            Origin::Author => author.push(rule),
            Origin::Inline => inline += &format!("{}: {}{};", c.prop, COLS[colour(k)], imp),
        }
    }
    let sheets = |v: &Vec<String>| -> Vec<String> {
        if c.split {
            v.clone()
        } else if v.is_empty() {
            vec![]
        } else {
            vec![v.join("\n")]
        }
    };
    let mut cfg = Cfg::rich().with(Opt::DocCss);
    for s in sheets(&agent) {
        cfg = cfg.with(Opt::AgentCss(s));
    }
    for s in sheets(&user) {
        cfg = cfg.with(Opt::UserCss(s));
    }
    if c.scatter && (!c.split || author.len() < 2) {
        return;
    }
    let styles: String = sheets(&author).iter().map(|s| format!("<style>{s}</style>")).collect();
    let body = format!("<div><div><div><div><div><div><div><div><p id=i class=c style=\"{inline}\">x</p></div></div></div></div></div></div></div></div>");
    let html = if c.scatter {
        let a = sheets(&author);
        let rest: String = a[1..].iter().map(|s| format!("<style>{s}</style>")).collect();
        format!("<html><head><style>{}</style></head><body><div>{rest}</div>{body}</body></html>", a[0])
    } else {
        format!("{styles}{body}")
    };
    let mut best = 0;
    for k in 1..c.decls.len() {
        if rank(&c.decls[k], k) >= rank(&c.decls[best], best) {
            best = k;
        }
    }
    let exp = dbg_colour(what, COLS[colour(best)]);
    let r = cx.render_lines(html.as_bytes(), 20, &cfg);
    cx.state(c.decls.len() as u64);
    let distinct_ranks = c.decls.iter().enumerate().map(|(k, d)| {
        let r = rank(d, k);
        (r.0, r.1, r.2)
    });
    let mut v: Vec<_> = distinct_ranks.collect();
    v.dedup();
    if v.len() >= 2 {
        cx.nontrivial();
    }
    let got = match &r {
        Out::Ok(lines) => colour_of(lines, 'x', what),
        _ => None,
    };
    if got.as_deref() != Some(exp.as_str()) {
        let key = c.decls.iter().map(|d| format!("{:?}{}", d.origin, if d.important { "!" } else { "" })).collect::<Vec<_>>().join(" vs ");
        let class = format!("cascade winner wrong: {key}");
        cx.violation(&class, || json!({"case": serde_json::to_value(c).unwrap(), "html": html, "cfg": cfg.as_rust(), "expected": exp, "observed": format!("{got:?}"), "result": format!("{r:?}").chars().take(400).collect::<String>(),
            "as_unit_test": format!("#[test] fn c19_replay() {{ let ls = {}.lines_from_read({html:?}.as_bytes(), 20).unwrap(); /* the piece containing 'x' must carry {exp} as its last {what} */ }}", cfg.as_rust())}));
    }
}

// ---- nearest enclosing element with a winning declaration ------------------------------
const CHAIN_DOC: &str = "<div class=g><div class=q><p class=e>x</p>y</div>z</div>";
/// selector, specificity, matches (g, q, e)
const CSELS: [(&str, (u32, u32, u32), [bool; 3]); 7] = [
    (".g", (0, 1, 0), [true, false, false]),
    (".q", (0, 1, 0), [false, true, false]),
    (".e", (0, 1, 0), [false, false, true]),
    ("div", (0, 0, 1), [true, true, false]),
    ("p", (0, 0, 1), [false, false, true]),
    ("div div", (0, 0, 2), [false, true, false]),
    ("div p", (0, 0, 2), [false, false, true]),
];
#[derive(Serialize, Deserialize)]
struct ChainCase {
    /// (selector index, colour index, important)
    rules: Vec<(usize, usize, bool)>,
}
fn check_chain(c: &ChainCase, cx: &mut Cx) {
    let sheet: String = c.rules.iter().map(|(s, col, imp)| format!("{}{{color:{}{}}}", CSELS[*s].0, COLS[*col], if *imp { " !important" } else { "" })).collect::<Vec<_>>().join(" ");
    let cfg = Cfg::rich().with(Opt::UserCss(sheet.clone()));
    let r = cx.render_lines(CHAIN_DOC.as_bytes(), 40, &cfg);
    cx.state(c.rules.len() as u64);
    // winner per element
    let winner = |el: usize| -> Option<usize> {
        let mut best: Option<(usize, (u32, (u32, u32, u32), usize))> = None;
        for (k, (s, _, imp)) in c.rules.iter().enumerate() {
            if CSELS[*s].2[el] {
                let rk = (*imp as u32, CSELS[*s].1, k);
                if best.map(|b| rk >= b.1).unwrap_or(true) {
                    best = Some((k, rk));
                }
            }
        }
        best.map(|b| c.rules[b.0].1)
    };
    let w: Vec<Option<usize>> = (0..3).map(winner).collect();
    if w.iter().filter(|x| x.is_some()).count() >= 2 {
        cx.nontrivial();
    }
    // x: e, then q, then g;  y: q then g;  z: g
    let exp = [('x', w[2].or(w[1]).or(w[0])), ('y', w[1].or(w[0])), ('z', w[0])];
    let Out::Ok(lines) = &r else {
        cx.violation("chain: rendering failed", || json!({"case": serde_json::to_value(c).unwrap(), "sheet": sheet, "result": format!("{r:?}")}));
        return;
    };
    for (ch, e) in exp {
        let want = e.map(|k| dbg_colour("Colour", COLS[k]));
        let got = colour_of(lines, ch, "Colour");
        if got != want {
            cx.violation("text does not take the colour of the nearest enclosing element with a winning declaration", || json!({"case": serde_json::to_value(c).unwrap(), "sheet": sheet, "doc": CHAIN_DOC, "token": ch.to_string(), "expected": want, "observed": got}));
            return;
        }
    }
}

struct S {
    tier: Tier,
    decls: Vec<Decl>,
    /// offsets of tuple lengths 2..=maxn in the unit space, then chain sheets of 1..=maxr rules
    dec_off: Vec<u64>,
    chain_off: Vec<u64>,
}
const NCR: u64 = 7 * 3 * 2; // chain rule kinds
fn chain_rule(i: u64) -> (usize, usize, bool) {
    let v = decode(i, &[7, 3, 2]);
    (v[0], v[1], v[2] == 1)
}
impl Scope for S {
    fn units(&self) -> u64 {
        *self.dec_off.last().unwrap() + *self.chain_off.last().unwrap()
    }
    fn run_unit(&self, unit: u64, cx: &mut Cx) {
        let n = self.decls.len();
        let ndec = *self.dec_off.last().unwrap();
        if unit < ndec {
            let li = (1..self.dec_off.len()).find(|&i| unit < self.dec_off[i]).unwrap();
            let len = li + 1; // tuple length
            let idx = decode(unit - self.dec_off[li - 1], &vec![n; len]);
            let decls: Vec<Decl> = idx.iter().map(|&i| self.decls[i]).collect();
            for prop in ["color", "background-color"] {
                for (split, scatter) in [(false, false), (true, false), (true, true)] {
                    check_decls(&Case { decls: decls.clone(), colours: vec![], prop: prop.to_string(), split, scatter }, cx);
                    // the same declaration text repeated after a competing one: A B A
                    if decls.len() == 3 {
                        check_decls(&Case { decls: decls.clone(), colours: vec![0, 1, 0], prop: prop.to_string(), split, scatter }, cx);
                    }
                }
            }
        } else {
            let u = unit - ndec;
            let li = (1..self.chain_off.len()).find(|&i| u < self.chain_off[i]).unwrap();
            let idx = decode(u - self.chain_off[li - 1], &vec![NCR as usize; li]);
            check_chain(&ChainCase { rules: idx.iter().map(|&i| chain_rule(i as u64)).collect() }, cx);
        }
    }
    fn info(&self) -> Info {
        Info {
            rule: "all ordered tuples of 2..=3 (thorough: ..=4) declarations from {agent,user,author,inline} x {normal,!important} x 7 selector specificity classes (incl. 11 classes vs one id, 11 types vs one class) applied to one element, for color and background-color, same-origin declarations in one sheet, split over adjacent sheets, and (author) scattered over <style> elements in <head> and inside a later <div> of the body; plus all sheets of <= 3 (thorough: 4) colour rules over 7 selectors on a three-deep ancestor chain; non-trivial = two declarations of different cascade rank apply".into(),
            bounds: json!({"declaration_kinds": self.decls.len(), "declaration_tuples": self.dec_off.last(), "chain_sheets": self.chain_off.last(), "selectors": SELS.iter().map(|s| s.0).collect::<Vec<_>>(), "chain_selectors": CSELS.iter().map(|s| s.0).collect::<Vec<_>>(), "tier": self.tier.name()}),
            assumptions: vec!["reference cascade: importance/origin class, then inline, then (ids, classes+pseudo-classes, types), then source order (last wins)".into()],
        }
    }
}
impl Prop for P {
    fn id(&self) -> &'static str {
        "C19"
    }
    fn build(&self, tier: Tier) -> Box<dyn Scope> {
        let decls = all_decls();
        let n = decls.len() as u64;
        let mut dec_off = vec![0u64];
        for len in 2..=tier.pick(3, 4) {
            dec_off.push(dec_off.last().unwrap() + n.pow(len));
        }
        let mut chain_off = vec![0u64];
        for len in 1..=tier.pick(3, 4) {
            chain_off.push(chain_off.last().unwrap() + NCR.pow(len));
        }
        Box::new(S { tier, decls, dec_off, chain_off })
    }
    fn replay(&self, case: &Value, cx: &mut Cx) {
        if case.get("rules").is_some() {
            check_chain(&serde_json::from_value(case.clone()).expect("C19 chain case"), cx);
        } else {
            check_decls(&serde_json::from_value(case.clone()).expect("C19 case"), cx);
        }
    }
}
