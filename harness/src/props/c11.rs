//! C11 Width errors: overflow option always succeeds and is otherwise a no-op.
//! Relations between two executions of the real code (with / without
//! allow_width_overflow) plus a bound on overflowing lines computed from the oracle DOM.
use crate::doc::G;
use crate::dom::{self, Dom};
use crate::engine::*;
use crate::run::*;
use crate::universe::*;
use crate::util::*;
use serde_json::{json, Value};

pub struct P;
pub static C11: P = P;

/// Largest total prefix width of any chain of nested prefixed blocks (oracle DOM).
pub fn max_prefix(dom: &Dom) -> usize {
    fn go(d: &Dom, i: usize) -> usize {
        let own = match d.elem(i) {
            Some((l, true, _)) => match l {
                "ul" | "blockquote" | "dd" => 2,
                "h1" | "h2" | "h3" | "h4" | "h5" | "h6" => l[1..].parse::<usize>().unwrap() + 1,
                "ol" => {
                    let start: i64 = d.attr(i, "start").and_then(|v| v.parse().ok()).unwrap_or(1);
                    let n = d.nodes[i].kids.iter().filter(|&&k| d.is_html(k, "li")).count() as i64;
                    let last = start.saturating_add(n).saturating_sub(1);
                    format!("{}. ", start).len().max(format!("{}. ", last).len())
                }
                _ => 0,
            },
            _ => 0,
        };
        own + d.nodes[i].kids.iter().map(|&k| go(d, k)).max().unwrap_or(0)
    }
    go(dom, 0)
}

fn check_pair(html: &[u8], w: usize, base: &Cfg, min_wrap: usize, p: usize, table_free: bool, cx: &mut Cx) {
    let a = cx.render(html, w, base);
    let with = base.clone().with(Opt::Overflow);
    let b = cx.render(html, w, &with);
    cx.state(2);
    let fail = |cx: &mut Cx, class: &str, a: &Out<String>, b: &Out<String>| {
        let class = format!("{class} [{}]", shape_key(html));
        cx.violation(&class, || json!({"case": case_json(html, w, base), "min_wrap_width": min_wrap, "without_overflow": format!("{a:?}"), "with_overflow": format!("{b:?}"),
            "as_unit_test": format!("#[test] fn c11_replay() {{ let a = {}.string_from_read(&{:?}[..], {}); let b = {}.string_from_read(&{:?}[..], {}); /* relation violated: {} */ }}", base.as_rust(), String::from_utf8_lossy(html), w, with.as_rust(), String::from_utf8_lossy(html), w, class)}));
    };
    for (r, name) in [(&a, "without"), (&b, "with")] {
        if !r.is_total() {
            fail(cx, &format!("{} overflow: {}", name, r.kind()), &a, &b);
            return;
        }
    }
    if w == 0 {
        if a != Out::TooNarrow || b != Out::TooNarrow {
            fail(cx, "width 0 did not yield TooNarrow", &a, &b);
        }
        return;
    }
    match (&a, &b) {
        (_, Out::TooNarrow) => fail(cx, "TooNarrow although width overflow is allowed", &a, &b),
        (Out::Ok(sa), Out::Ok(sb)) => {
            if sa != sb {
                fail(cx, "allowing overflow changed a rendering that already succeeded", &a, &b);
            }
        }
        (Out::TooNarrow, Out::Ok(_)) => cx.nontrivial(),
        _ => {}
    }
    if let Out::Ok(sb) = &b {
        if table_free && !base.has(|o| matches!(o, Opt::NoLinkWrap)) {
            let bound = w.max(p + min_wrap.max(5));
            if let Some(l) = sb.lines().find(|l| sw(l) > bound) {
                fail(cx, &format!("overflowing line exceeds max(w, P + max(min_wrap_width, 5)) by {}", sw(l) - bound), &a, &b);
            }
        }
    }
}

pub fn check_doc(html: &[u8], widths: &[usize], full: bool, cx: &mut Cx) {
    let dom = dom::parse(html);
    let p = max_prefix(&dom);
    let table_free = !dom.has_elem("table");
    for &w in widths {
        for mw in [None, Some(0usize), Some(1), Some(6), Some(10)] {
            let mwv = mw.unwrap_or(3);
            let mut bases: Vec<Cfg> = vec![Cfg::plain()];
            if full {
                bases.push(Cfg::rich());
                if mw.is_none() || mw == Some(6) {
                    for o in [Opt::Pad, Opt::Raw, Opt::NoBorders, Opt::MaxWrap(4), Opt::MaxWrap(1), Opt::Footnotes(false), Opt::NoLinkWrap, Opt::Strike(false)] {
                        bases.push(Cfg::plain().with(o));
                    }
                    bases.push(Cfg::trivial());
                }
            }
            for mut base in bases {
                if let Some(m) = mw {
                    base = base.with(Opt::MinWrap(m));
                }
                check_pair(html, w, &base, mwv, p, table_free, cx);
            }
        }
    }
}

struct S {
    docs: Vec<Vec<u8>>,
    nfull: usize,
    widths: Vec<usize>,
    cwidths: Vec<usize>,
}
impl Scope for S {
    fn units(&self) -> u64 {
        self.docs.len() as u64
    }
    fn run_unit(&self, unit: u64, cx: &mut Cx) {
        let u = unit as usize;
        if u < self.nfull {
            check_doc(&self.docs[u], &self.widths, true, cx);
        } else {
            check_doc(&self.docs[u], &self.cwidths, false, cx);
        }
    }
    fn info(&self) -> Info {
        Info {
            rule: "documents: block grammar to the stated depth + seeds + table slice, and every single-byte corruption of the inline-level documents and seeds; x widths (0 included) x min_wrap_width in {default 3, 0, 1, 6, 10} x {plain, rich, trivial, and plain with one further option}; each case is a pair of executions (without / with allow_width_overflow); non-trivial = the pair differs (TooNarrow without, Ok with)".into(),
            bounds: json!({"documents_full": self.nfull, "documents_corrupted": self.docs.len() - self.nfull, "widths": self.widths, "widths_corrupted": self.cwidths, "min_wrap_width": [3, 0, 1, 6, 10]}),
            assumptions: vec!["P (deepest prefix stack) is computed from the oracle DOM with the built-in decorators' prefix widths".into()],
        }
    }
}
impl Prop for P {
    fn id(&self) -> &'static str {
        "C11"
    }
    fn build(&self, tier: Tier) -> Box<dyn Scope> {
        let g = G { tables: true, pre: true, valid_only: false };
        let mut docs: Vec<Vec<u8>> = doc_universe(tier.pick(2, 3), g, true, false).into_iter().map(|s| s.into_bytes()).collect();
        docs.extend(table_slice(tier.pick(200, 2000)).into_iter().map(|s| s.into_bytes()));
        let nfull = docs.len();
        let cseeds = doc_universe(tier.pick(0, 1), g, true, false);
        docs.extend(corruption_universe(&cseeds, tier.pick(40, 56)));
        Box::new(S { docs, nfull, widths: (0..=tier.pick(12, 60)).collect(), cwidths: vec![0, 1, 2, 3, 5, 9] })
    }
    fn replay(&self, case: &Value, cx: &mut Cx) {
        let (html, w, cfg) = case_from_json(case);
        let dom = dom::parse(&html);
        let mw = cfg.opts.iter().find_map(|o| if let Opt::MinWrap(m) = o { Some(*m) } else { None }).unwrap_or(3);
        check_pair(&html, w, &cfg, mw, max_prefix(&dom), !dom.has_elem("table"), cx);
    }
}
