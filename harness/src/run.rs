//! The only place where the subject (html2text) is called.  Public API only.
use html2text::config::{self, Config};
use html2text::render::{
    RichAnnotation, TaggedLine, TaggedLineElement, TextDecorator, TrivialDecorator,
};
use html2text::Error;
use serde::{Deserialize, Serialize};
use std::cell::RefCell;
use std::panic::{catch_unwind, AssertUnwindSafe};

/// Parameters of the harness's own decorator family (all strings are arbitrary UTF-8).
#[derive(Clone, Debug, PartialEq, Eq, Hash, Serialize, Deserialize)]
pub struct DecParams {
    pub link_open: String,
    pub link_close: String,
    pub em: String,
    pub strong: String,
    pub strike: String,
    pub code: String,
    pub img_open: String,
    pub img_close: String,
    pub header: String, // repeated `level` times, followed by a space
    pub quote: String,
    pub ul: String,
    pub ol_suffix: String, // ordered prefix = "{i}{ol_suffix}"
}
impl DecParams {
    /// The plain decorator's ASCII strings.
    pub fn ascii() -> DecParams {
        DecParams {
            link_open: "[".into(),
            link_close: "]".into(),
            em: "*".into(),
            strong: "**".into(),
            strike: "~".into(),
            code: "`".into(),
            img_open: "[".into(),
            img_close: "]".into(),
            header: "#".into(),
            quote: "> ".into(),
            ul: "* ".into(),
            ol_suffix: ". ".into(),
        }
    }
    pub const NPARAMS: usize = 12;
    pub fn set(&mut self, i: usize, v: &str) {
        let f = match i {
            0 => &mut self.link_open,
            1 => &mut self.link_close,
            2 => &mut self.em,
            3 => &mut self.strong,
            4 => &mut self.strike,
            5 => &mut self.code,
            6 => &mut self.img_open,
            7 => &mut self.img_close,
            8 => &mut self.header,
            9 => &mut self.quote,
            10 => &mut self.ul,
            _ => &mut self.ol_suffix,
        };
        *f = v.to_string();
    }
    pub fn name(i: usize) -> &'static str {
        ["link_open", "link_close", "em", "strong", "strike", "code", "img_open", "img_close", "header", "quote", "ul", "ol_suffix"][i]
    }
}

#[derive(Clone, Debug)]
pub struct CustomDec(pub DecParams);
impl TextDecorator for CustomDec {
    type Annotation = ();
    fn decorate_link_start(&mut self, _u: &str) -> (String, ()) {
        (self.0.link_open.clone(), ())
    }
    fn decorate_link_end(&mut self) -> String {
        self.0.link_close.clone()
    }
    fn decorate_em_start(&self) -> (String, ()) {
        (self.0.em.clone(), ())
    }
    fn decorate_em_end(&self) -> String {
        self.0.em.clone()
    }
    fn decorate_strong_start(&self) -> (String, ()) {
        (self.0.strong.clone(), ())
    }
    fn decorate_strong_end(&self) -> String {
        self.0.strong.clone()
    }
    fn decorate_strikeout_start(&self) -> (String, ()) {
        (self.0.strike.clone(), ())
    }
    fn decorate_strikeout_end(&self) -> String {
        self.0.strike.clone()
    }
    fn decorate_code_start(&self) -> (String, ()) {
        (self.0.code.clone(), ())
    }
    fn decorate_code_end(&self) -> String {
        self.0.code.clone()
    }
    fn decorate_preformat_first(&self) {}
    fn decorate_preformat_cont(&self) {}
    fn decorate_image(&mut self, _s: &str, t: &str) -> (String, ()) {
        (format!("{}{}{}", self.0.img_open, t, self.0.img_close), ())
    }
    fn header_prefix(&self, level: usize) -> String {
        self.0.header.repeat(level) + " "
    }
    fn quote_prefix(&self) -> String {
        self.0.quote.clone()
    }
    fn unordered_item_prefix(&self) -> String {
        self.0.ul.clone()
    }
    fn ordered_item_prefix(&self, i: i64) -> String {
        format!("{}{}", i, self.0.ol_suffix)
    }
    fn make_subblock_decorator(&self) -> Self {
        self.clone()
    }
}

#[derive(Clone, Debug, PartialEq, Eq, Hash, Serialize, Deserialize)]
pub enum Dec {
    Plain,
    PlainNoDecorate,
    Rich,
    Trivial,
    Custom(DecParams),
}

#[derive(Clone, Debug, PartialEq, Eq, Hash, Serialize, Deserialize)]
pub enum Opt {
    Overflow,
    Pad,
    Raw,
    /// raw_mode(false): a setter called with the default value
    RawOff,
    NoBorders,
    NoLinkWrap,
    Footnotes(bool),
    Strike(bool),
    Decorate,
    DocCss,
    UserCss(String),
    AgentCss(String),
    MaxWrap(usize),
    MinWrap(usize),
}

#[derive(Clone, Debug, PartialEq, Eq, Hash, Serialize, Deserialize)]
pub struct Cfg {
    pub dec: Dec,
    pub opts: Vec<Opt>,
}
impl Cfg {
    pub fn new(dec: Dec) -> Cfg {
        Cfg { dec, opts: vec![] }
    }
    pub fn plain() -> Cfg {
        Cfg::new(Dec::Plain)
    }
    pub fn rich() -> Cfg {
        Cfg::new(Dec::Rich)
    }
    pub fn trivial() -> Cfg {
        Cfg::new(Dec::Trivial)
    }
    pub fn with(mut self, o: Opt) -> Cfg {
        self.opts.push(o);
        self
    }
    pub fn has(&self, f: impl Fn(&Opt) -> bool) -> bool {
        self.opts.iter().any(f)
    }
    pub fn short(&self) -> String {
        let d = match &self.dec {
            Dec::Plain => "plain".to_string(),
            Dec::PlainNoDecorate => "plain_no_decorate".to_string(),
            Dec::Rich => "rich".to_string(),
            Dec::Trivial => "trivial".to_string(),
            Dec::Custom(p) => format!("custom{:?}", p),
        };
        if self.opts.is_empty() {
            d
        } else {
            format!("{}+{:?}", d, self.opts)
        }
    }
    /// Rust source of the builder expression (used in the `as_unit_test` field of replays).
    pub fn as_rust(&self) -> String {
        let mut s = match &self.dec {
            Dec::Plain => "html2text::config::plain()".to_string(),
            Dec::PlainNoDecorate => "html2text::config::plain_no_decorate()".to_string(),
            Dec::Rich => "html2text::config::rich()".to_string(),
            Dec::Trivial => "html2text::config::with_decorator(html2text::render::TrivialDecorator::new())".to_string(),
            Dec::Custom(p) => format!("html2text::config::with_decorator(/* harness CustomDec {:?} */)", p),
        };
        for o in &self.opts {
            s += &match o {
                Opt::Overflow => ".allow_width_overflow()".to_string(),
                Opt::Pad => ".pad_block_width()".to_string(),
                Opt::Raw => ".raw_mode(true)".to_string(),
                Opt::RawOff => ".raw_mode(false)".to_string(),
                Opt::NoBorders => ".no_table_borders()".to_string(),
                Opt::NoLinkWrap => ".no_link_wrapping()".to_string(),
                Opt::Footnotes(b) => format!(".link_footnotes({b})"),
                Opt::Strike(b) => format!(".unicode_strikeout({b})"),
                Opt::Decorate => ".do_decorate()".to_string(),
                Opt::DocCss => ".use_doc_css()".to_string(),
                Opt::UserCss(c) => format!(".add_css({c:?}).unwrap()"),
                Opt::AgentCss(c) => format!(".add_agent_css({c:?}).unwrap()"),
                Opt::MaxWrap(m) => format!(".max_wrap_width({m})"),
                Opt::MinWrap(m) => format!(".min_wrap_width({m})"),
            };
        }
        s
    }
}

/// One piece of an annotated output line.
#[derive(Clone, Debug, PartialEq, Eq, Serialize, Deserialize)]
pub enum Piece {
    /// text and the Debug rendering of each annotation, outermost first
    Str(String, Vec<String>),
    Frag(String),
}
pub type Lines = Vec<Vec<Piece>>;

pub fn line_text(l: &[Piece]) -> String {
    let mut s = String::new();
    for p in l {
        if let Piece::Str(t, _) = p {
            s.push_str(t);
        }
    }
    s
}
pub fn lines_text(ls: &Lines) -> String {
    let mut s = String::new();
    for l in ls {
        s.push_str(&line_text(l));
        s.push('\n');
    }
    s
}

#[derive(Clone, Debug, PartialEq, Eq, Serialize, Deserialize)]
pub enum Out<T> {
    Ok(T),
    TooNarrow,
    CssErr,
    /// any other Err(_) – never acceptable
    OtherErr(String),
    /// the call unwound; message and location
    Panic(String),
}
impl<T> Out<T> {
    pub fn kind(&self) -> &'static str {
        match self {
            Out::Ok(_) => "Ok",
            Out::TooNarrow => "TooNarrow",
            Out::CssErr => "CssParseError",
            Out::OtherErr(_) => "OtherErr",
            Out::Panic(_) => "Panic",
        }
    }
    pub fn ok(&self) -> Option<&T> {
        if let Out::Ok(t) = self {
            Some(t)
        } else {
            None
        }
    }
    pub fn is_ok(&self) -> bool {
        matches!(self, Out::Ok(_))
    }
    /// Ok or TooNarrow (or CssErr when css was supplied) – the results C01 allows.
    pub fn is_total(&self) -> bool {
        matches!(self, Out::Ok(_) | Out::TooNarrow | Out::CssErr)
    }
    pub fn map<U>(self, f: impl FnOnce(T) -> U) -> Out<U> {
        match self {
            Out::Ok(t) => Out::Ok(f(t)),
            Out::TooNarrow => Out::TooNarrow,
            Out::CssErr => Out::CssErr,
            Out::OtherErr(e) => Out::OtherErr(e),
            Out::Panic(e) => Out::Panic(e),
        }
    }
}

thread_local! {
    static LAST_PANIC: RefCell<String> = RefCell::new(String::new());
}
pub fn install_panic_hook() {
    std::panic::set_hook(Box::new(|info| {
        let loc = info
            .location()
            .map(|l| {
                let f = l.file();
                let f = f.rsplit("html2text/").next().unwrap_or(f);
                format!("{}:{}", f, l.line())
            })
            .unwrap_or_default();
        let msg = if let Some(s) = info.payload().downcast_ref::<&str>() {
            s.to_string()
        } else if let Some(s) = info.payload().downcast_ref::<String>() {
            s.clone()
        } else {
            String::new()
        };
        let msg: String = msg.chars().take(200).collect();
        LAST_PANIC.with(|p| *p.borrow_mut() = format!("{loc}: {msg}"));
    }));
}
fn take_panic() -> String {
    LAST_PANIC.with(|p| std::mem::take(&mut *p.borrow_mut()))
}

fn conv<T>(r: std::thread::Result<Result<T, Error>>) -> Out<T> {
    match r {
        Ok(Ok(t)) => Out::Ok(t),
        Ok(Err(Error::TooNarrow)) => Out::TooNarrow,
        Ok(Err(Error::CssParseError)) => Out::CssErr,
        Ok(Err(e)) => Out::OtherErr(format!("{e:?}")),
        Err(_) => Out::Panic(take_panic()),
    }
}

pub fn apply_opts<D: TextDecorator>(mut c: Config<D>, opts: &[Opt]) -> Result<Config<D>, Error> {
    for o in opts {
        c = match o {
            Opt::Overflow => c.allow_width_overflow(),
            Opt::Pad => c.pad_block_width(),
            Opt::Raw => c.raw_mode(true),
            Opt::RawOff => c.raw_mode(false),
            Opt::NoBorders => c.no_table_borders(),
            Opt::NoLinkWrap => c.no_link_wrapping(),
            Opt::Footnotes(b) => c.link_footnotes(*b),
            Opt::Strike(b) => c.unicode_strikeout(*b),
            Opt::Decorate => c.do_decorate(),
            Opt::DocCss => c.use_doc_css(),
            Opt::UserCss(s) => c.add_css(s)?,
            Opt::AgentCss(s) => c.add_agent_css(s)?,
            Opt::MaxWrap(m) => c.max_wrap_width(*m),
            Opt::MinWrap(m) => c.min_wrap_width(*m),
        };
    }
    Ok(c)
}

fn conv_lines<A: std::fmt::Debug + Eq + Clone + Default>(ls: Vec<TaggedLine<Vec<A>>>) -> Lines {
    ls.iter()
        .map(|l| {
            l.iter()
                .map(|e| match e {
                    TaggedLineElement::Str(ts) => {
                        Piece::Str(ts.s.clone(), ts.tag.iter().map(|a| format!("{a:?}")).collect())
                    }
                    TaggedLineElement::FragmentStart(f) => Piece::Frag(f.clone()),
                })
                .collect()
        })
        .collect()
}

/// Dispatch on the decorator; `f` is generic over it.
macro_rules! with_cfg {
    ($cfg:expr, |$c:ident| $body:expr) => {
        match &$cfg.dec {
            Dec::Plain => {
                let $c = apply_opts(config::plain(), &$cfg.opts);
                $body
            }
            Dec::PlainNoDecorate => {
                let $c = apply_opts(config::plain_no_decorate(), &$cfg.opts);
                $body
            }
            Dec::Rich => {
                let $c = apply_opts(config::rich(), &$cfg.opts);
                $body
            }
            Dec::Trivial => {
                let $c = apply_opts(config::with_decorator(TrivialDecorator::new()), &$cfg.opts);
                $body
            }
            Dec::Custom(p) => {
                let $c = apply_opts(config::with_decorator(CustomDec(p.clone())), &$cfg.opts);
                $body
            }
        }
    };
}

/// `Config::string_from_read`
pub fn render_raw(html: &[u8], w: usize, cfg: &Cfg) -> Out<String> {
    conv(catch_unwind(AssertUnwindSafe(|| {
        with_cfg!(cfg, |c| c.and_then(|c| c.string_from_read(html, w)))
    })))
}

/// `Config::lines_from_read`
pub fn render_lines_raw(html: &[u8], w: usize, cfg: &Cfg) -> Out<Lines> {
    conv(catch_unwind(AssertUnwindSafe(|| {
        with_cfg!(cfg, |c| c.and_then(|c| c.lines_from_read(html, w)).map(conv_lines))
    })))
}

/// Only builds the configuration (add_css / add_agent_css): C17 totality.
pub fn build_cfg_raw(cfg: &Cfg) -> Out<()> {
    conv(catch_unwind(AssertUnwindSafe(|| with_cfg!(cfg, |c| c.map(|_| ())))))
}

/// Operations of the staged API for C10 histories.
#[derive(Clone, Debug, PartialEq, Eq, Hash, Serialize, Deserialize)]
pub enum Op {
    /// render_to_string(tree.clone(), w)
    Str(usize),
    /// render_to_lines(tree.clone(), w), joined
    Lines(usize),
    /// tree = tree.clone()
    CloneTree,
    /// tree = dom_to_render_tree(&dom)
    Rebuild,
    /// rich only: render_coloured(tree.clone(), w, identity)
    Coloured(usize),
}

/// Runs a history on the staged API with one Config; returns one result per rendering op
/// plus a final render_to_string of the *original* tree (moved) at `final_w`.
pub fn staged_history_raw(html: &[u8], cfg: &Cfg, ops: &[Op], final_w: usize) -> Out<Vec<Out<String>>> {
    fn go<D: TextDecorator>(c: Result<Config<D>, Error>, html: &[u8], ops: &[Op], final_w: usize, rich: Option<&dyn Fn(&Config<D>, html2text::RenderTree, usize) -> Result<String, Error>>) -> Result<Vec<Out<String>>, Error>
    where
        D::Annotation: std::fmt::Debug,
    {
        let c = c?;
        let dom = c.parse_html(html)?;
        let mut tree = c.dom_to_render_tree(&dom)?;
        let mut res = vec![];
        let o = |r: Result<String, Error>| conv(Ok(r));
        for op in ops {
            match op {
                Op::Str(w) => res.push(o(c.render_to_string(tree.clone(), *w))),
                Op::Lines(w) => res.push(o(c.render_to_lines(tree.clone(), *w).map(|ls| lines_text(&conv_lines(ls))))),
                Op::CloneTree => tree = tree.clone(),
                Op::Rebuild => tree = c.dom_to_render_tree(&dom)?,
                Op::Coloured(w) => {
                    if let Some(f) = rich {
                        res.push(o(f(&c, tree.clone(), *w)))
                    } else {
                        res.push(o(c.render_to_string(tree.clone(), *w)))
                    }
                }
            }
        }
        res.push(o(c.render_to_string(tree, final_w)));
        Ok(res)
    }
    conv(catch_unwind(AssertUnwindSafe(|| match &cfg.dec {
        Dec::Plain => go(apply_opts(config::plain(), &cfg.opts), html, ops, final_w, None),
        Dec::PlainNoDecorate => go(apply_opts(config::plain_no_decorate(), &cfg.opts), html, ops, final_w, None),
        Dec::Rich => go(
            apply_opts(config::rich(), &cfg.opts),
            html,
            ops,
            final_w,
            Some(&|c: &Config<html2text::render::RichDecorator>, t, w| c.render_coloured(t, w, |_, s| s.to_string())),
        ),
        Dec::Trivial => go(apply_opts(config::with_decorator(TrivialDecorator::new()), &cfg.opts), html, ops, final_w, None),
        Dec::Custom(p) => go(apply_opts(config::with_decorator(CustomDec(p.clone())), &cfg.opts), html, ops, final_w, None),
    })))
}

/// The other one-shot routes (C10): name → result.  Only meaningful for the standard decorators.
pub fn other_routes_raw(html: &[u8], w: usize, cfg: &Cfg) -> Vec<(&'static str, Out<String>)> {
    let mut v: Vec<(&'static str, Out<String>)> = vec![];
    v.push(("lines_from_read", render_lines_raw(html, w, cfg).map(|l| lines_text(&l))));
    if cfg.dec == Dec::Rich {
        v.push((
            "coloured",
            conv(catch_unwind(AssertUnwindSafe(|| {
                apply_opts(config::rich(), &cfg.opts).and_then(|c| c.coloured(html, w, |_, s| s.to_string()))
            }))),
        ));
        if cfg.opts.is_empty() {
            v.push((
                "from_read_coloured",
                conv(catch_unwind(AssertUnwindSafe(|| html2text::from_read_coloured(html, w, |_: &[RichAnnotation], s: &str| s.to_string())))),
            ));
            v.push((
                "from_read_rich",
                conv(catch_unwind(AssertUnwindSafe(|| html2text::from_read_rich(html, w).map(|ls| lines_text(&conv_lines(ls)))))),
            ));
        }
    }
    if cfg.dec == Dec::Plain && cfg.opts.is_empty() {
        v.push(("from_read", conv(catch_unwind(AssertUnwindSafe(|| html2text::from_read(html, w))))));
    }
    // html2text::parse() builds the tree once (with a trivial-decorator configuration); it can
    // then be rendered with any decorator whose configuration does not change tree building
    // (no CSS, no do_decorate pseudo-content)
    let tree_neutral = !cfg.opts.iter().any(|o| matches!(o, Opt::Decorate | Opt::DocCss | Opt::UserCss(_) | Opt::AgentCss(_))) && cfg.dec != Dec::Plain;
    if tree_neutral && cfg.dec != Dec::Trivial {
        v.push((
            "parse() + render_to_string with this configuration",
            conv(catch_unwind(AssertUnwindSafe(|| {
                let t = html2text::parse(html)?;
                with_cfg!(cfg, |c| c.and_then(|c| c.render_to_string(t, w)))
            }))),
        ));
    }
    if cfg.dec == Dec::Trivial && cfg.opts.is_empty() {
        v.push((
            "from_read_with_decorator",
            conv(catch_unwind(AssertUnwindSafe(|| html2text::from_read_with_decorator(html, w, TrivialDecorator::new())))),
        ));
        // html2text::parse builds the tree with a trivial-decorator configuration
        v.push((
            "parse+render_to_string",
            conv(catch_unwind(AssertUnwindSafe(|| {
                let t = html2text::parse(html)?;
                config::with_decorator(TrivialDecorator::new()).render_to_string(t, w)
            }))),
        ));
    }
    v
}

/// `dom_to_parsed_style` of the parsed document (C17/C20: the parsed form of <style> sheets).
pub fn parsed_style_raw(html: &[u8]) -> Out<String> {
    conv(catch_unwind(AssertUnwindSafe(|| {
        let dom = config::plain().parse_html(html)?;
        html2text::dom_to_parsed_style(&dom)
    })))
}
