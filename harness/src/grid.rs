//! Character-cell grid parser for table output (C05/C06 and users of table structure).
use crate::util::*;

/// Maps a line to display columns: a width-2 character occupies two cells (the second is
/// '\0'), width-0 characters occupy none.
pub fn grid_line(line: &str) -> Vec<char> {
    let mut v = vec![];
    for c in line.chars() {
        let w = cw(c);
        if w == 0 {
            continue;
        }
        v.push(c);
        for _ in 1..w {
            v.push('\u{0}');
        }
    }
    v
}
pub fn grid(lines: &[&str]) -> Vec<Vec<char>> {
    lines.iter().map(|l| grid_line(l)).collect()
}
pub fn pure_rule(r: &[char]) -> bool {
    !r.is_empty() && r.iter().all(|&c| is_rule_glyph(c))
}
pub fn slash_rule(r: &[char]) -> bool {
    !r.is_empty() && r.iter().all(|&c| c == '/')
}
