//! Shared document universes (as serialised HTML), de-duplicated and in deterministic order.
use crate::doc::*;
use crate::mutate;
use crate::util::compositions;
use std::collections::HashSet;

/// Witness documents of every finding (fixed or known): permanent regression seeds that
/// every document-universe check also runs.
pub fn seeds() -> Vec<String> {
    [
        "<ol start=9223372036854775807><li>a<li>b</ol>",
        "<ol start=-9223372036854775808><li>a<li>b</ol>",
        "<table><tr><td>a<td>b</table>",
        "<table><tr><td>ccc<td>d<tr><td colspan=2>eeeeeeeeee</table>",
        "<a href=\"中\">x</a>",
        "<p><a href=\"/中 中/u\">xy</a> z</p>",
        "<table><tr><td colspan=3>ab<tr><td><td><td></table>",
        "<table><tr><td colspan=2>a<br>a<tr><td><td></table>",
        "<table><tr><td>h<tfoot><tr><td>f</tfoot></table>",
        "<table><caption>cap</caption><tr><td>h</table>",
        "<table><thead><tr><th>h<th>i</thead><tbody><tr><td>j<td>k</tbody><tfoot><tr><td>l<td>m</tfoot></table>",
        "<ol>x<li>a</ol>",
        "<ol><ol><li>qa</ol></ol>",
        "<dl><div><dt>t<dd>d</div></dl>",
        "<table><tr><td colspan=2>e<br>f<tr><td><td></table>",
        "<a href=x><em><em></em></em></a>",
        "<table style=\"color:#f00\"><tr><td>x</table><p>after",
        "<pre><em>x</em></pre>",
        "<ul><li><p>qb <!-- c -->qc</ul>",
        "<p id=x>hhhhhhhh b</p>",
        "<td colspan=18446744073709551615>x<td>y",
        "<table><tr><td colspan=18446744073709551615>x<td>y</table>",
        "<pre>ab cd</pre>",
        "<pre>a\tb\n\tcd  \n\nxyzxyzxyzxyz</pre>",
        "<ul><li><pre>a\tb c</pre><li>x</ul>",
        "<table><tr><td><table><tr><td>n<td>m</table><td>o</table>",
        "<blockquote><ul><li>a<ol start=99><li>b<li>c</ol></ul></blockquote>",
        "<h1>hh <a href=\"/u\">l</a></h1>",
        "<p>x<sup>12</sup> y<sup>z</sup></p>",
        // degenerate structures: tables without rows or cells, captions in odd places, lists without items
        "<p>qa</p><table><caption>qk</caption></table><p>qo</p>",
        "<table><caption>qk</caption><thead></thead><tbody></tbody></table>",
        "<table><caption>qk</caption><tr></tr></table>qb",
        "<table><tr></tr><tr><td>qa</td></tr></table>",
        "<table><thead><tr><th>qa</th></tr></thead></table>",
        "<table><tfoot><tr><td>qa</td></tr></tfoot></table>",
        "<table><tbody></tbody><caption>qa</caption></table>",
        "<table><caption>qa</caption><caption>qb</caption><tr><td>qc</td></tr></table>",
        "<table><tr><td>qa</td></tr><caption>qb</caption></table>",
        "<table><tbody><tr><td>qa</td></tr></tbody><caption>qb</caption><tbody><tr><td>qc</td></tr></tbody></table>",
        "<ul></ul>qa<ol></ol>qb<dl></dl>qc",
        "<ul><li></li></ul>qa<dl><dt></dt><dd></dd></dl>qb",
        "<p>x<sup>\u{b2}</sup> y<sup>\u{ff11}\u{ff12}</sup> z<sup>1\u{bd}</sup></p>",
        "<p>caf<em>e</em>\u{301} a<strong>\u{301}</strong>b</p>",
        // struck text with white space that is not ASCII (no-break, ideographic, em space), at the end of the element
        "<p><s>abc\u{a0}</s></p><p>next</p>",
        "<p><s>a\u{3000}</s> b <del>x\u{2003}y\u{a0}</del></p>",
        "<ul><li><s>qa\u{a0}</s><br>qb</li></ul>",
        // content without any display width: only combining marks / zero-width spaces, empty tables in prefixed blocks
        "<p>qa<sup>2<em>qn</em></sup> qb<sup>17<a href=\"/1\">qo</a></sup> qc<sup><em>3</em>4</sup></p>",
        // supplementary-plane (4-byte) wide characters, emoji sequences (ZWJ, variation selector, keycap)
        "<p>a\u{1f600}b \u{1f600}\u{1f600} c\u{fe0f} 1\u{fe0f}\u{20e3} x</p>",
        "<ul><li>\u{1f600}<a href=\"/\u{1f600}\">q\u{1f600}</a> <em>*</em>\u{fe0f}z</li></ul>",
        "<table><tr><td>\u{1f600}</td><td>q\u{1f468}\u{200d}\u{1f469} r</td></tr></table>",
        "<pre>\u{1f600}\t\u{1f600}\n#\u{fe0f}</pre>",
        // prefixed blocks whose content has no width but still starts a text block
        "<blockquote><sup></sup></blockquote><ul><li id=\"a\"></li></ul>",
        "<ol><li><pre> </pre></li></ol><dl><dd><span id=\"x\"></span></dd></dl>",
        "<ul><li>\u{301}</li></ul>",
        "<blockquote>\u{200b}</blockquote><ol><li>\u{301}\u{301} \u{301}</li></ol>",
        "<table><tr><td>\u{301}</td></tr></table>",
        "<table><tr><td>\u{301}</td></tr><tr><td>qb</td></tr></table>",
        "<table><tr><td>qa</td><td>\u{200b}</td></tr></table>",
        "<ul><li><table><tr><td></td></tr></table></li></ul>",
        "<blockquote><table><tr><td></td></tr></table></blockquote>",
        "<dl><dd><table><tr><td></td><td></td></tr></table></dd></dl>",
        "<p><del>a中b</del> <s>c</s></p>",
        "<p><img src=/s alt=\"al t\"><img alt=noalt><img src=/s></p>",
        "<dl><dt>t<dd>d<dd><p>e</dl>",
        "<p>e\u{301}e\u{301}e\u{301} \u{200b}z</p>",
        // a wide character directly followed by combining marks (hard wrap / overflow at width 1)
        "<p>qa 世\u{301} qb<em>界\u{308}\u{301}</em>y</p>",
        "<ul><li>世\u{301}</li><li>a界\u{301}</li></ul>",
        // ordered lists whose last number is one below a power of ten, nested in prefixed blocks
        "<blockquote><ol start=9><li><a href=\"/1\">qa qb qc</a> qd qe qf</li></ol></blockquote>",
        "<ul><li><ol start=99><li>qa qb qc qd qe</li></ol></li></ul>",
        "<ul><li><ol><li>qa</li><li>qb</li><li>qc</li><li>qd</li><li>qe</li><li>qf</li><li>qg</li><li>qh</li><li>qi qj qk ql</li></ol></li></ul>",
        "<blockquote><ol start=999><li>qa qb qc qd</li></ol></blockquote>",
        // text ending in white space directly before a block
        "<p>qa </p><h2>qb</h2><p>qc\n</p><ul><li>qd</li></ul>",
        // an empty block first
        "<h2></h2><p>qa qb qc</p>",
        "<ul><li><p> </p>qa qb</li></ul>",
        // preformatted blocks that hold only blank / white-space lines, followed by a block
        "<pre> \n\n  </pre><p>qa</p>",
        "<p>qa</p><pre>\n \n</pre><p>qb</p>",
        "<ul><li><pre>  \n</pre>qa</li></ul><p>qb</p>",
        // an image whose alt text is longer than any minimum wrap width, inside prefixed blocks
        "<blockquote><img src=\"/s\" alt=\"qaqbqcqdqeqf\"></blockquote>",
        "<ul><li><ul><li><img src=\"/s\" alt=\"qaqbqcqdqeqf\"> qg</li></ul></li></ul>",
        // composite shapes: three different block constructors nested (table in list in quote, lists / pre /
        // quote / heading in table cells, table in table in table), and elements outside the grammar
        // (hr, th in thead, ins, i, wbr, h1/h4/h5/h6)
        "<blockquote><ul><li><table><tr><td>qa qb</td><td>qc</td></tr><tr><td>qd</td><td>qe qf qg</td></tr></table></li><li>qh</li></ul></blockquote>",
        "<table><tr><td><ul><li>qa qb qc</li><li>qd</li></ul></td><td><ol start=9><li>qe</li><li>qf qg</li></ol></td></tr></table>",
        "<table><tr><td><pre>qa  qb\n\tqc</pre></td><td>qd qe</td></tr></table>",
        "<table><tr><td><blockquote>qa qb <em>qc</em></blockquote></td><td><h2>qd qe</h2>qf</td></tr></table>",
        "<ul><li><blockquote><pre>qa qb  qc\nqd</pre></blockquote>qe</li></ul>",
        "<p>qa</p><hr><p>qb</p><ul><li>qc<hr>qd</li></ul><blockquote><hr></blockquote>",
        "<table><thead><tr><th>qa qb</th><th>qc</th></tr></thead><tr><td><a href=\"/1\">qd qe</a></td><td><ul><li>qf</li></ul></td></tr></table>",
        "<p>qa <ins>qb qc</ins> <i>qd</i> qe<wbr>qf qgqgqgqgqgqg<wbr>qhqhqhqhqh</p>",
        "<dl><dt>qa</dt><dd><ul><li><table><tr><td>qb</td><td>qc qd</td></tr></table></li></ul></dd></dl>",
        "<ol><li><table><tr><td><ol start=99><li>qa qb</li><li>qc</li></ol></td></tr></table>qd</li><li>qe</li></ol>",
        "<blockquote><blockquote><blockquote><h1>qa qb qc</h1><p>qd <a href=\"/1\">qe</a> <a href=\"/2\">qf qg</a></p></blockquote></blockquote></blockquote>",
        "<table><tr><td><table><tr><td><table><tr><td>qa qb</td><td>qc</td></tr></table></td><td>qd</td></tr></table></td><td>qe qf</td></tr></table>",
        "<div><p>qa</p><div><div><p>qb</p></div>qc</div><h4>qd</h4><h5>qe</h5><h6>qf <strong>qg</strong></h6></div>",
    ]
    .iter()
    .map(|s| s.to_string())
    .collect()
}

/// Regular r x c tables, every row independently tiled by every composition of c into
/// colspans, cell content from `contents` ("X" is replaced by the cell's own letter when
/// `letters`).  Returns (html, cells) with cells = (row, col, span, letter or None if empty).
pub struct TableCase {
    pub html: String,
    pub rows: usize,
    pub cols: usize,
    /// (row, first column, span, letter)
    pub cells: Vec<(usize, usize, usize, Option<char>)>,
    /// the content template of each cell (before letter substitution), parallel to `cells`
    pub contents: Vec<String>,
}
pub fn n_tables(rows: usize, cols: usize, ncontents: usize) -> u64 {
    let comps = compositions(cols);
    let mut total = 0u64;
    // number of (tiling per row, content per cell) combinations
    fn rec(row: usize, rows: usize, comps: &[Vec<usize>], nc: u64, acc: u64, total: &mut u64) {
        if row == rows {
            *total += acc;
            return;
        }
        for t in comps {
            rec(row + 1, rows, comps, nc, acc * nc.pow(t.len() as u32), total);
        }
    }
    rec(0, rows, &comps, ncontents as u64, 1, &mut total);
    total
}
/// The i-th table of shape rows x cols (mixed-radix over tilings then contents).
pub fn table_case(rows: usize, cols: usize, contents: &[&str], mut i: u64, wrap: &dyn Fn(&str) -> String) -> TableCase {
    let comps = compositions(cols);
    // choose tilings
    let mut tilings: Vec<&Vec<usize>> = vec![];
    // iterate tilings in mixed radix, contents inside
    // layout: index = sum over tiling tuples (in order) of block sizes
    let nt = comps.len();
    let mut tcode = 0u64;
    let ntil = (nt as u64).pow(rows as u32);
    let nc = contents.len() as u64;
    let mut found = false;
    while tcode < ntil {
        let mut tc = tcode;
        tilings.clear();
        for _ in 0..rows {
            tilings.push(&comps[(tc % nt as u64) as usize]);
            tc /= nt as u64;
        }
        let ncells: usize = tilings.iter().map(|t| t.len()).sum();
        let block = nc.pow(ncells as u32);
        if i < block {
            found = true;
            break;
        }
        i -= block;
        tcode += 1;
    }
    assert!(found, "table index out of range");
    let mut html = String::from("<table>");
    let mut cells = vec![];
    let mut cell_contents = vec![];
    let mut letter = b'a';
    let mut cc = i;
    for (r, t) in tilings.iter().enumerate() {
        html.push_str("<tr>");
        let mut col = 0;
        for &span in t.iter() {
            let c = contents[(cc % nc) as usize];
            cc /= nc;
            let l = letter as char;
            letter += 1;
            let body = c.replace('X', &l.to_string());
            if span > 1 {
                html.push_str(&format!("<td colspan={span}>{body}</td>"));
            } else {
                html.push_str(&format!("<td>{body}</td>"));
            }
            cells.push((r, col, span, if c.contains('X') { Some(l) } else { None }));
            cell_contents.push(body.clone());
            col += span;
        }
        html.push_str("</tr>");
    }
    html.push_str("</table>");
    TableCase { html: wrap(&html), rows, cols, cells, contents: cell_contents }
}

/// Grammar documents + seeds (+ a slice of the table universe), serialised and de-duplicated.
pub fn doc_universe(depth: usize, g: G, with_seeds: bool, with_tables: bool) -> Vec<String> {
    let mut seen: HashSet<String> = HashSet::new();
    let mut out = vec![];
    let mut push = |s: String, out: &mut Vec<String>| {
        if seen.insert(s.clone()) {
            out.push(s);
        }
    };
    for d in block_docs(depth, g) {
        push(html(&d), &mut out);
    }
    if with_seeds {
        for s in seeds() {
            push(s, &mut out);
        }
    }
    let _ = with_tables;
    out
}

/// Every single-byte edit of every seed document (DESIGN §3.5 family D).
pub fn corruption_universe(seeds: &[String], max_len: usize) -> Vec<Vec<u8>> {
    let mut seen: HashSet<Vec<u8>> = HashSet::new();
    let mut out = vec![];
    for s in seeds {
        let b = s.as_bytes();
        if b.len() > max_len {
            continue;
        }
        for i in 0..mutate::n_byte_edits(b.len()) {
            let m = mutate::byte_edit(b, i);
            if seen.insert(m.clone()) {
                out.push(m);
            }
        }
    }
    out
}

/// About `target` tables spread evenly over the regular-table universe (shapes 1x2, 2x2,
/// 2x3, 3x2); the complete universe is C05/C06's subject.
pub fn table_slice(target: u64) -> Vec<String> {
    let contents = ["", "X", "XX XX XX", "X<br>X", "中X"];
    let mut seen: HashSet<String> = HashSet::new();
    let mut out = vec![];
    let shapes = [(1usize, 2usize), (2, 2), (2, 3), (3, 2)];
    for (r, c) in shapes {
        let n = n_tables(r, c, contents.len());
        let per = (target / shapes.len() as u64).max(1);
        let step = (n / per).max(1);
        let mut i = 0;
        while i < n {
            let h = table_case(r, c, &contents, i, &|h| h.to_string()).html;
            if seen.insert(h.clone()) {
                out.push(h);
            }
            i += step;
        }
    }
    out
}

/// Documents with id attributes: every element of every (valid, depth <= `depth`) grammar
/// document in turn carrying id="F", and empty id-carrying elements (span, div, a name=)
/// placed before, between and after the blocks.
pub fn id_universe(depth: usize) -> Vec<String> {
    let mut seen: HashSet<String> = HashSet::new();
    let mut out = vec![];
    let docs = block_docs(depth, G { tables: true, pre: true, valid_only: true });
    for d in &docs {
        for p in elem_paths(d) {
            let mut dd = d.clone();
            if let N::E(_, attrs, _) = node_at_mut(&mut dd, &p) {
                attrs.push(("id".into(), "F".into()));
            }
            let h = html(&dd);
            if seen.insert(h.clone()) {
                out.push(h);
            }
        }
        let h = html(d);
        for marker in ["<span id=\"F\"></span>", "<div id=\"F\"></div>", "<a name=\"F\"></a>", "<p id=\"F\"></p>"] {
            for v in [format!("{h}{marker}"), format!("{marker}{h}"), format!("{h}{marker}<p>qy</p>")] {
                if seen.insert(v.clone()) {
                    out.push(v);
                }
            }
        }
    }
    out
}
