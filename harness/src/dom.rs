//! The harness's own html5ever `TreeSink` (an arena of nodes).  All oracles that need
//! "the document" read this DOM – not the generator's tree and not the crate's vendored
//! RcDom – so they stay valid for mis-nested and byte-mutated input, and a defect in the
//! crate's rcdom shows up as a disagreement.
use html5ever::tendril::{StrTendril, TendrilSink};
use html5ever::tree_builder::{ElementFlags, NodeOrText, QuirksMode, TreeBuilderOpts, TreeSink};
use html5ever::{parse_document, Attribute, ExpandedName, ParseOpts, QualName};
use std::borrow::Cow;
use std::cell::RefCell;

#[derive(Debug)]
pub enum Data {
    Doc,
    Text(String),
    Comment,
    /// local name, is-html-namespace, attributes
    Elem(String, bool, Vec<(String, String)>),
    Other,
}
#[derive(Debug)]
pub struct Node {
    pub data: Data,
    pub parent: Option<usize>,
    pub kids: Vec<usize>,
}
#[derive(Default, Debug)]
pub struct Dom {
    pub nodes: Vec<Node>,
}

struct Arena {
    nodes: RefCell<Vec<Node>>,
    /// element names, boxed so that their addresses stay stable while the sink lives
    names: RefCell<Vec<Option<Box<QualName>>>>,
}
impl Arena {
    fn new_node(&self, d: Data) -> usize {
        let mut n = self.nodes.borrow_mut();
        n.push(Node { data: d, parent: None, kids: vec![] });
        n.len() - 1
    }
    fn detach(&self, t: usize) {
        let p = self.nodes.borrow()[t].parent;
        if let Some(p) = p {
            let mut n = self.nodes.borrow_mut();
            n[p].kids.retain(|&k| k != t);
            n[t].parent = None;
        }
    }
    fn append_node(&self, p: usize, c: usize) {
        self.detach(c);
        let mut n = self.nodes.borrow_mut();
        n[c].parent = Some(p);
        n[p].kids.push(c);
    }
    fn append_text(&self, p: usize, before: Option<usize>, s: &str) {
        let mut n = self.nodes.borrow_mut();
        let pos = match before {
            Some(b) => n[p].kids.iter().position(|&k| k == b).unwrap(),
            None => n[p].kids.len(),
        };
        if pos > 0 {
            let prev = n[p].kids[pos - 1];
            if let Data::Text(ref mut t) = n[prev].data {
                t.push_str(s);
                return;
            }
        }
        n.push(Node { data: Data::Text(s.to_string()), parent: Some(p), kids: vec![] });
        let id = n.len() - 1;
        n[p].kids.insert(pos, id);
    }
}
struct Sink {
    a: Arena,
}
impl TreeSink for Sink {
    type Handle = usize;
    type Output = Dom;
    type ElemName<'a> = ExpandedName<'a>;
    fn finish(self) -> Dom {
        Dom { nodes: self.a.nodes.into_inner() }
    }
    fn parse_error(&self, _m: Cow<'static, str>) {}
    fn get_document(&self) -> usize {
        0
    }
    fn elem_name<'a>(&'a self, t: &'a usize) -> ExpandedName<'a> {
        let names = self.a.names.borrow();
        let q: *const QualName = &**names[*t].as_ref().expect("not an element");
        // SAFETY: the QualName lives in a Box owned by the arena, is never dropped or replaced
        // before the sink itself is dropped, and a Box's contents do not move when the Vec grows.
        unsafe { (*q).expanded() }
    }
    fn create_element(&self, name: QualName, attrs: Vec<Attribute>, _f: ElementFlags) -> usize {
        let html = &*name.ns == "http://www.w3.org/1999/xhtml";
        let id = self.a.new_node(Data::Elem(
            name.local.to_string(),
            html,
            attrs.iter().map(|a| (a.name.local.to_string(), a.value.to_string())).collect(),
        ));
        let mut n = self.a.names.borrow_mut();
        while n.len() <= id {
            n.push(None);
        }
        n[id] = Some(Box::new(name));
        id
    }
    fn create_comment(&self, _t: StrTendril) -> usize {
        self.a.new_node(Data::Comment)
    }
    fn create_pi(&self, _t: StrTendril, _d: StrTendril) -> usize {
        self.a.new_node(Data::Other)
    }
    fn append(&self, p: &usize, c: NodeOrText<usize>) {
        match c {
            NodeOrText::AppendNode(n) => self.a.append_node(*p, n),
            NodeOrText::AppendText(t) => self.a.append_text(*p, None, &t),
        }
    }
    fn append_based_on_parent_node(&self, el: &usize, prev: &usize, c: NodeOrText<usize>) {
        let has_parent = self.a.nodes.borrow()[*el].parent.is_some();
        if has_parent {
            self.append_before_sibling(el, c)
        } else {
            self.append(prev, c)
        }
    }
    fn append_doctype_to_document(&self, _n: StrTendril, _p: StrTendril, _s: StrTendril) {}
    fn get_template_contents(&self, t: &usize) -> usize {
        *t
    }
    fn same_node(&self, x: &usize, y: &usize) -> bool {
        x == y
    }
    fn set_quirks_mode(&self, _m: QuirksMode) {}
    fn append_before_sibling(&self, sib: &usize, c: NodeOrText<usize>) {
        let p = self.a.nodes.borrow()[*sib].parent.expect("no parent");
        match c {
            NodeOrText::AppendText(t) => self.a.append_text(p, Some(*sib), &t),
            NodeOrText::AppendNode(n) => {
                self.a.detach(n);
                let mut ns = self.a.nodes.borrow_mut();
                let pos = ns[p].kids.iter().position(|&k| k == *sib).unwrap();
                ns[n].parent = Some(p);
                ns[p].kids.insert(pos, n);
            }
        }
    }
    fn add_attrs_if_missing(&self, t: &usize, attrs: Vec<Attribute>) {
        let mut ns = self.a.nodes.borrow_mut();
        if let Data::Elem(_, _, ref mut ex) = ns[*t].data {
            for a in attrs {
                let k = a.name.local.to_string();
                if !ex.iter().any(|(kk, _)| *kk == k) {
                    ex.push((k, a.value.to_string()));
                }
            }
        }
    }
    fn remove_from_parent(&self, t: &usize) {
        self.a.detach(*t)
    }
    fn reparent_children(&self, node: &usize, np: &usize) {
        let kids: Vec<usize> = self.a.nodes.borrow()[*node].kids.clone();
        for k in kids {
            self.a.append_node(*np, k);
        }
    }
}

pub fn parse(html: &[u8]) -> Dom {
    let sink = Sink { a: Arena { nodes: RefCell::new(vec![]), names: RefCell::new(vec![]) } };
    sink.a.new_node(Data::Doc);
    let opts = ParseOpts { tree_builder: TreeBuilderOpts { drop_doctype: true, ..Default::default() }, ..Default::default() };
    parse_document(sink, opts).from_utf8().read_from(&mut &html[..]).unwrap()
}

impl Dom {
    pub fn elem(&self, i: usize) -> Option<(&str, bool, &Vec<(String, String)>)> {
        match &self.nodes[i].data {
            Data::Elem(l, h, a) => Some((l.as_str(), *h, a)),
            _ => None,
        }
    }
    pub fn is_html(&self, i: usize, name: &str) -> bool {
        matches!(self.elem(i), Some((l, true, _)) if l == name)
    }
    pub fn attr(&self, i: usize, name: &str) -> Option<&str> {
        self.elem(i).and_then(|(_, _, a)| a.iter().find(|(k, _)| k == name).map(|(_, v)| v.as_str()))
    }
    pub fn ancestors(&self, i: usize) -> Vec<usize> {
        let mut v = vec![];
        let mut p = self.nodes[i].parent;
        while let Some(x) = p {
            v.push(x);
            p = self.nodes[x].parent;
        }
        v
    }
    /// 1-based index among element siblings.
    pub fn elem_index(&self, i: usize) -> usize {
        match self.nodes[i].parent {
            None => 1,
            Some(p) => {
                let mut idx = 0;
                for &k in &self.nodes[p].kids {
                    if matches!(self.nodes[k].data, Data::Elem(..)) {
                        idx += 1;
                    }
                    if k == i {
                        break;
                    }
                }
                idx
            }
        }
    }
    pub fn has_elem(&self, name: &str) -> bool {
        (0..self.nodes.len()).any(|i| self.is_html(i, name))
    }
    /// Pre-order walk of attached nodes.
    pub fn preorder(&self) -> Vec<usize> {
        let mut out = vec![];
        let mut stack = vec![0usize];
        while let Some(i) = stack.pop() {
            out.push(i);
            for &k in self.nodes[i].kids.iter().rev() {
                stack.push(k);
            }
        }
        out
    }
}

/// Elements whose subtree the renderer ignores by documented design
/// (C03: "outside head, script and style"; link/meta/hr/template have no text of their own).
pub const IGNORED: &[&str] = &["head", "script", "style", "template", "link", "meta", "hr", "title"];

/// Visible flow text per the C03 statement: text nodes and `alt` of images with a non-empty
/// `src`, outside ignored elements, in document order.  `skip` lets a caller leave out
/// subtrees (hidden by CSS).
pub fn visible_text(dom: &Dom, skip: &dyn Fn(usize) -> bool) -> String {
    fn go(d: &Dom, i: usize, out: &mut String, skip: &dyn Fn(usize) -> bool) {
        if skip(i) {
            return;
        }
        match &d.nodes[i].data {
            Data::Text(t) => out.push_str(t),
            Data::Elem(l, html, at) => {
                if *html && IGNORED.contains(&l.as_str()) {
                    return;
                }
                if *html && l == "img" {
                    let src = at.iter().find(|(k, _)| k == "src").map(|(_, v)| v.as_str()).unwrap_or("");
                    let alt = at.iter().find(|(k, _)| k == "alt").map(|(_, v)| v.as_str()).unwrap_or("");
                    if !src.is_empty() {
                        out.push_str(alt);
                    }
                    return;
                }
                for &k in &d.nodes[i].kids {
                    go(d, k, out, skip);
                }
            }
            Data::Doc => {
                for &k in &d.nodes[i].kids {
                    go(d, k, out, skip);
                }
            }
            _ => {}
        }
    }
    let mut out = String::new();
    go(dom, 0, &mut out, skip);
    out
}

/// Visible text of one subtree (same rules as `visible_text`).
pub fn visible_text_of(dom: &Dom, root: usize) -> String {
    fn go(d: &Dom, i: usize, out: &mut String) {
        match &d.nodes[i].data {
            Data::Text(t) => out.push_str(t),
            Data::Elem(l, html, at) => {
                if *html && IGNORED.contains(&l.as_str()) {
                    return;
                }
                if *html && l == "img" {
                    let src = at.iter().find(|(k, _)| k == "src").map(|(_, v)| v.as_str()).unwrap_or("");
                    let alt = at.iter().find(|(k, _)| k == "alt").map(|(_, v)| v.as_str()).unwrap_or("");
                    if !src.is_empty() {
                        out.push_str(alt);
                    }
                    return;
                }
                for &k in &d.nodes[i].kids {
                    go(d, k, out);
                }
            }
            Data::Doc => {
                for &k in &d.nodes[i].kids {
                    go(d, k, out);
                }
            }
            _ => {}
        }
    }
    let mut out = String::new();
    go(dom, root, &mut out);
    out
}
