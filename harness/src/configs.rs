//! The configuration lattice, deviation-bounded (DESIGN §3.4): a configuration's deviation
//! is the number of options changed from the decorator's default.
use crate::run::{Cfg, Dec, Opt};

pub const STD_CSS: &str = "p{color:#f00} .a{display:none} td{background-color:#00f}";

/// Option families; members of one family are never combined with each other.
pub fn families(dec: &Dec, w: usize) -> Vec<Vec<Opt>> {
    let footnote_default = matches!(dec, Dec::Plain);
    let mut maxwrap: Vec<usize> = vec![1, 4, w.saturating_sub(1), w, w.saturating_add(1), usize::MAX];
    maxwrap.retain(|&m| m >= 1);
    maxwrap.sort();
    maxwrap.dedup();
    vec![
        vec![Opt::Overflow],
        vec![Opt::Pad],
        vec![Opt::Raw],
        vec![Opt::NoBorders],
        vec![Opt::NoLinkWrap],
        vec![Opt::Footnotes(!footnote_default)],
        vec![Opt::Strike(false)],
        vec![Opt::Decorate],
        vec![Opt::DocCss],
        vec![Opt::UserCss(STD_CSS.to_string())],
        maxwrap.into_iter().map(Opt::MaxWrap).collect(),
        vec![Opt::MinWrap(0), Opt::MinWrap(1), Opt::MinWrap(10)],
    ]
}

/// All configurations of the decorator with deviation <= max_dev whose options all pass `allow`.
pub fn configs(dec: &Dec, w: usize, max_dev: usize, allow: &dyn Fn(&Opt) -> bool) -> Vec<Cfg> {
    let fams: Vec<Vec<Opt>> = families(dec, w).into_iter().map(|f| f.into_iter().filter(|o| allow(o)).collect::<Vec<_>>()).filter(|f| !f.is_empty()).collect();
    let mut out = vec![Cfg::new(dec.clone())];
    if max_dev >= 1 {
        for f in &fams {
            for o in f {
                out.push(Cfg::new(dec.clone()).with(o.clone()));
            }
        }
    }
    if max_dev >= 2 {
        for i in 0..fams.len() {
            for j in i + 1..fams.len() {
                for a in &fams[i] {
                    for b in &fams[j] {
                        out.push(Cfg::new(dec.clone()).with(a.clone()).with(b.clone()));
                    }
                }
            }
        }
    }
    out
}
