//! Byte-level and token-level corruption, deviation-bounded (DESIGN §3.5): *every* single
//! edit of a seed document over a small byte alphabet – exhaustive over the stated
//! neighbourhood, not random mutation.
use crate::doc::html_tokens;

pub const BYTE_ALPHABET: [u8; 14] = [b'<', b'>', b'/', b'&', b';', b'=', b'"', b'\'', b' ', b'\n', 0, 0x80, 0xFF, b'a'];

/// Number of single-byte edits of a seed of length n.
pub fn n_byte_edits(n: usize) -> usize {
    n + n * BYTE_ALPHABET.len() + (n + 1) * BYTE_ALPHABET.len()
}
/// The i-th single-byte edit: deletions, then replacements, then insertions.
pub fn byte_edit(seed: &[u8], mut i: usize) -> Vec<u8> {
    let n = seed.len();
    let k = BYTE_ALPHABET.len();
    let mut v = seed.to_vec();
    if i < n {
        v.remove(i);
        return v;
    }
    i -= n;
    if i < n * k {
        v[i / k] = BYTE_ALPHABET[i % k];
        return v;
    }
    i -= n * k;
    v.insert(i / k, BYTE_ALPHABET[i % k]);
    v
}

/// Token-level corruption: delete one tag token, duplicate one, swap two adjacent tokens –
/// at every position.
pub fn token_mutants(h: &str) -> Vec<String> {
    let toks = html_tokens(h);
    let mut muts = vec![];
    for i in 0..toks.len() {
        if toks[i].starts_with('<') {
            let mut t = toks.clone();
            t.remove(i);
            muts.push(t.concat());
            let mut t = toks.clone();
            t.insert(i, toks[i].clone());
            muts.push(t.concat());
        }
        if i + 1 < toks.len() {
            let mut t = toks.clone();
            t.swap(i, i + 1);
            muts.push(t.concat());
        }
    }
    muts
}
