//! Exploration engine: deterministic sharded enumeration over worker processes, per-call
//! progress records (crash / hang attribution), aggregation, known-findings, replay files,
//! evidence files.
use crate::run::{self, Cfg, Lines, Out};
use crate::util::*;
use serde_json::{json, Value};
use std::collections::{BTreeMap, HashSet};
use std::io::{Read, Write};
use std::os::unix::fs::FileExt;
use std::path::{Path, PathBuf};
use std::time::{Duration, Instant, SystemTime, UNIX_EPOCH};

#[derive(Clone, Copy, Debug, PartialEq, Eq)]
pub enum Tier {
    Quick,
    Thorough,
}
impl Tier {
    pub fn name(self) -> &'static str {
        match self {
            Tier::Quick => "quick",
            Tier::Thorough => "thorough",
        }
    }
    pub fn parse(s: &str) -> Option<Tier> {
        match s {
            "quick" => Some(Tier::Quick),
            "thorough" => Some(Tier::Thorough),
            _ => None,
        }
    }
    pub fn pick<T>(self, q: T, t: T) -> T {
        match self {
            Tier::Quick => q,
            Tier::Thorough => t,
        }
    }
}

/// Static description of a scope, copied into the evidence file.
pub struct Info {
    pub rule: String,
    pub bounds: Value,
    pub assumptions: Vec<String>,
}

pub trait Scope {
    fn units(&self) -> u64;
    fn run_unit(&self, unit: u64, cx: &mut Cx);
    fn info(&self) -> Info;
}
pub trait Prop: Sync {
    fn id(&self) -> &'static str;
    fn build(&self, tier: Tier) -> Box<dyn Scope>;
    /// Re-check one recorded case (the `case` object of a replay file).
    fn replay(&self, case: &Value, cx: &mut Cx);
}

const SET_CAP: usize = 3_000_000;
const CLASS_CAP: usize = 400;

#[derive(Default)]
struct Rec {
    count: u64,
    first: Value,
}

enum Mode {
    Explore,
    Describe { unit: u64, sub: u64 },
    Replay,
}

/// Per-worker collector; every subject call goes through it.
pub struct Cx {
    pub tier: Tier,
    mode: Mode,
    progress: Option<std::fs::File>,
    unit: u64,
    sub: u64,
    timeout_s: u64,
    pub evals: u64,
    pub cases: u64,
    pub transitions: u64,
    pub nontrivial_count: u64,
    nontrivial_set: HashSet<u64>,
    nontrivial_capped: bool,
    out_set: HashSet<u64>,
    out_capped: bool,
    last_case_hash: u64,
    outcomes: BTreeMap<&'static str, u64>,
    stats: BTreeMap<String, u64>,
    violations: BTreeMap<String, Rec>,
    known: BTreeMap<String, Rec>,
    samples: Vec<Value>,
    max_call_ms: u64,
    slow_bound_ms: u64,
    /// CPU time of this process when the current call began
    call_cpu0: u64,
}

/// CPU time consumed by this (single-threaded) process so far, in milliseconds.  Time bounds
/// are decided on CPU time, never on wall-clock time: on a loaded machine a worker may not be
/// scheduled for many seconds, which says nothing about the subject.
fn own_cpu_ms() -> u64 {
    let mut ts = libc::timespec { tv_sec: 0, tv_nsec: 0 };
    // SAFETY: plain syscall writing into a local timespec
    unsafe { libc::clock_gettime(libc::CLOCK_PROCESS_CPUTIME_ID, &mut ts) };
    ts.tv_sec as u64 * 1000 + ts.tv_nsec as u64 / 1_000_000
}
/// CPU time (user + system) of another process in milliseconds, from /proc/<pid>/stat.
fn cpu_ms_of(pid: u32) -> Option<u64> {
    let st = std::fs::read_to_string(format!("/proc/{pid}/stat")).ok()?;
    // the command name (field 2) may contain spaces: fields are counted after the last ')'
    let rest = &st[st.rfind(')')? + 2..];
    let f: Vec<&str> = rest.split(' ').collect();
    let ticks: u64 = f.get(11)?.parse::<u64>().ok()? + f.get(12)?.parse::<u64>().ok()?;
    // SAFETY: sysconf has no preconditions
    let hz = unsafe { libc::sysconf(libc::_SC_CLK_TCK) }.max(1) as u64;
    Some(ticks * 1000 / hz)
}
fn now_ms() -> u64 {
    SystemTime::now().duration_since(UNIX_EPOCH).map(|d| d.as_millis() as u64).unwrap_or(0)
}

pub fn case_json(html: &[u8], w: usize, cfg: &Cfg) -> Value {
    json!({
        "html": String::from_utf8_lossy(html),
        "html_b64": b64(html),
        "width": w,
        "cfg": serde_json::to_value(cfg).unwrap(),
        "cfg_rust": cfg.as_rust(),
    })
}
pub fn case_from_json(v: &Value) -> (Vec<u8>, usize, Cfg) {
    let html = unb64(v["html_b64"].as_str().unwrap_or(""));
    let w = v["width"].as_u64().unwrap_or(0) as usize;
    let cfg: Cfg = serde_json::from_value(v["cfg"].clone()).unwrap_or(Cfg::plain());
    (html, w, cfg)
}

impl Cx {
    fn new(tier: Tier, mode: Mode, progress: Option<std::fs::File>) -> Cx {
        Cx {
            tier,
            mode,
            progress,
            unit: 0,
            sub: 0,
            timeout_s: 20,
            evals: 0,
            cases: 0,
            transitions: 0,
            nontrivial_count: 0,
            nontrivial_set: HashSet::new(),
            nontrivial_capped: false,
            out_set: HashSet::new(),
            out_capped: false,
            last_case_hash: 0,
            outcomes: BTreeMap::new(),
            stats: BTreeMap::new(),
            violations: BTreeMap::new(),
            known: BTreeMap::new(),
            samples: vec![],
            max_call_ms: 0,
            slow_bound_ms: 10_000,
            call_cpu0: 0,
        }
    }
    pub fn for_replay(tier: Tier) -> Cx {
        Cx::new(tier, Mode::Replay, None)
    }
    /// Watchdog limit (seconds) for the following calls; also the "too slow" bound.
    pub fn set_timeout(&mut self, secs: u64) {
        self.timeout_s = secs;
        self.slow_bound_ms = secs * 1000;
    }
    fn begin_call(&mut self, describe: impl FnOnce() -> Value) {
        self.sub += 1;
        if let Mode::Describe { unit, sub } = self.mode {
            if unit == self.unit && sub == self.sub {
                println!("{}", describe());
                std::process::exit(0);
            }
        }
        if let Some(f) = &self.progress {
            let mut rec = [0u8; 40];
            rec[0..8].copy_from_slice(&self.unit.to_le_bytes());
            rec[8..16].copy_from_slice(&self.sub.to_le_bytes());
            rec[16..24].copy_from_slice(&self.timeout_s.to_le_bytes());
            rec[24..32].copy_from_slice(&now_ms().to_le_bytes());
            self.call_cpu0 = own_cpu_ms();
            rec[32..40].copy_from_slice(&self.call_cpu0.to_le_bytes());
            let _ = f.write_at(&rec, 0);
        }
    }
    fn end_call(&mut self, t0: Instant, kind: &'static str, out_hash: u64, describe: impl FnOnce() -> Value) {
        self.evals += 1;
        *self.outcomes.entry(kind).or_default() += 1;
        if !self.out_capped {
            self.out_set.insert(out_hash);
            if self.out_set.len() >= SET_CAP {
                self.out_capped = true;
            }
        }
        let ms = t0.elapsed().as_millis() as u64;
        if ms > self.max_call_ms {
            self.max_call_ms = ms;
        }
        if ms > self.slow_bound_ms {
            // decided on CPU time: wall-clock time also counts the time this process was not running
            let cpu = if self.progress.is_some() { own_cpu_ms().saturating_sub(self.call_cpu0) } else { ms };
            if cpu > self.slow_bound_ms {
                let d = describe();
                self.violation("call exceeded the time bound", || json!({"case": d, "elapsed_ms": ms, "cpu_ms": cpu}));
            } else {
                self.stat("a call took longer than the time bound in wall-clock time but not in CPU time (machine load)");
            }
        }
    }

    /// `string_from_read` on the subject.
    pub fn render(&mut self, html: &[u8], w: usize, cfg: &Cfg) -> Out<String> {
        self.last_case_hash = h64_parts(&[html, &w.to_le_bytes(), cfg.short().as_bytes()]);
        self.begin_call(|| json!({"api": "string_from_read", "case": case_json(html, w, cfg)}));
        let t0 = Instant::now();
        let r = run::render_raw(html, w, cfg);
        let h = match &r {
            Out::Ok(s) => h64(s.as_bytes()),
            o => h64(o.kind().as_bytes()),
        };
        self.end_call(t0, r.kind(), h, || case_json(html, w, cfg));
        if self.samples.len() < 3 && self.evals % 977 == 1 {
            let res: String = format!("{r:?}").chars().take(300).collect();
            self.samples.push(json!({"api": "string_from_read", "html": String::from_utf8_lossy(html), "width": w, "config": cfg.short(), "result": res}));
        }
        r
    }
    /// `lines_from_read` on the subject.
    pub fn render_lines(&mut self, html: &[u8], w: usize, cfg: &Cfg) -> Out<Lines> {
        self.last_case_hash = h64_parts(&[html, &w.to_le_bytes(), cfg.short().as_bytes(), b"L"]);
        self.begin_call(|| json!({"api": "lines_from_read", "case": case_json(html, w, cfg)}));
        let t0 = Instant::now();
        let r = run::render_lines_raw(html, w, cfg);
        let h = match &r {
            Out::Ok(l) => h64(format!("{l:?}").as_bytes()),
            o => h64(o.kind().as_bytes()),
        };
        self.end_call(t0, r.kind(), h, || case_json(html, w, cfg));
        if self.samples.len() < 3 && self.evals % 977 == 1 {
            let res: String = format!("{r:?}").chars().take(300).collect();
            self.samples.push(json!({"api": "lines_from_read", "html": String::from_utf8_lossy(html), "width": w, "config": cfg.short(), "result": res}));
        }
        r
    }
    /// Any other subject call; `desc` describes it for crash attribution.
    pub fn call<T: std::fmt::Debug>(&mut self, desc: &dyn Fn() -> Value, f: impl FnOnce() -> Out<T>) -> Out<T> {
        self.begin_call(desc);
        let t0 = Instant::now();
        let r = f();
        let h = match &r {
            Out::Ok(l) => h64(format!("{l:?}").as_bytes()),
            o => h64(o.kind().as_bytes()),
        };
        self.end_call(t0, r.kind(), h, desc);
        r
    }
    pub fn set_case_hash(&mut self, h: u64) {
        self.last_case_hash = h;
    }

    /// One explored history (state) made of `events` steps (transitions).
    pub fn state(&mut self, events: u64) {
        self.cases += 1;
        self.transitions += events;
    }
    /// The case of the last call is non-trivial by the property's rule.
    pub fn nontrivial(&mut self) {
        self.nontrivial_count += 1;
        if !self.nontrivial_capped {
            self.nontrivial_set.insert(self.last_case_hash);
            if self.nontrivial_set.len() >= SET_CAP {
                self.nontrivial_capped = true;
            }
        }
    }
    pub fn stat(&mut self, k: &str) {
        *self.stats.entry(k.to_string()).or_default() += 1;
    }
    pub fn stat_add(&mut self, k: &str, n: u64) {
        *self.stats.entry(k.to_string()).or_default() += n;
    }
    pub fn sample(&mut self, f: impl FnOnce() -> Value) {
        if self.samples.len() < 4 {
            self.samples.push(f());
        }
    }
    pub fn want_sample(&self) -> bool {
        self.samples.len() < 4
    }
    /// A violation of the property; `class` groups witnesses, the first one is kept.
    pub fn violation(&mut self, class: &str, detail: impl FnOnce() -> Value) {
        if let Some(r) = self.violations.get_mut(class) {
            r.count += 1;
            return;
        }
        if self.violations.len() >= CLASS_CAP {
            self.violations.entry("(further classes)".into()).or_default().count += 1;
            return;
        }
        self.violations.insert(class.to_string(), Rec { count: 1, first: detail() });
    }
    /// The footprint of a finding that has a classifier (see known_findings.json).
    pub fn known(&mut self, id: &str, detail: impl FnOnce() -> Value) {
        if let Some(r) = self.known.get_mut(id) {
            r.count += 1;
            return;
        }
        self.known.insert(id.to_string(), Rec { count: 1, first: detail() });
    }
    pub fn n_violations(&self) -> u64 {
        self.violations.values().map(|r| r.count).sum()
    }

    fn to_json(&self) -> Value {
        let recs = |m: &BTreeMap<String, Rec>| -> Value {
            Value::Object(m.iter().map(|(k, r)| (k.clone(), json!({"count": r.count, "first": r.first}))).collect())
        };
        json!({
            "evals": self.evals, "cases": self.cases, "transitions": self.transitions,
            "nontrivial_count": self.nontrivial_count, "nontrivial_capped": self.nontrivial_capped,
            "out_capped": self.out_capped,
            "outcomes": self.outcomes, "stats": self.stats,
            "violations": recs(&self.violations), "known": recs(&self.known),
            "samples": self.samples, "max_call_ms": self.max_call_ms,
        })
    }
}

fn write_set(path: &Path, set: &HashSet<u64>) {
    let mut buf = Vec::with_capacity(set.len() * 8);
    for h in set {
        buf.extend_from_slice(&h.to_le_bytes());
    }
    let _ = std::fs::write(path, buf);
}
fn read_set(path: &Path, into: &mut HashSet<u64>) {
    if let Ok(buf) = std::fs::read(path) {
        for ch in buf.chunks_exact(8) {
            into.insert(u64::from_le_bytes(ch.try_into().unwrap()));
        }
    }
}

/// Worker process: runs the units `start.., step W` of shard `i`.
pub fn worker_main(prop: &dyn Prop, tier: Tier, shard: u64, nshards: u64, start_after: Option<u64>, rundir: &Path, describe: Option<(u64, u64)>) -> i32 {
    run::install_panic_hook();
    let scope = prop.build(tier);
    let units = scope.units();
    let (mode, progress) = match describe {
        Some((unit, sub)) => (Mode::Describe { unit, sub }, None),
        None => {
            let f = std::fs::OpenOptions::new().create(true).write(true).open(rundir.join(format!("w{shard}.cur"))).ok();
            (Mode::Explore, f)
        }
    };
    let mut cx = Cx::new(tier, mode, progress);
    if let Some((unit, _)) = describe {
        cx.unit = unit;
        cx.sub = 0;
        scope.run_unit(unit, &mut cx);
        eprintln!("describe: target call not reached");
        return 3;
    }
    let mut u = shard;
    while u < units {
        if start_after.map(|s| u > s).unwrap_or(true) {
            cx.unit = u;
            cx.sub = 0;
            scope.run_unit(u, &mut cx);
        }
        u += nshards;
    }
    // mark "done" so that the parent's watchdog stops looking at this worker
    if let Some(f) = &cx.progress {
        let mut rec = [0u8; 32];
        rec[0..8].copy_from_slice(&u64::MAX.to_le_bytes());
        let _ = f.write_at(&rec, 0);
    }
    let tag = match start_after {
        Some(s) => format!("w{shard}r{s}"),
        None => format!("w{shard}"),
    };
    write_set(&rundir.join(format!("{tag}.out")), &cx.out_set);
    write_set(&rundir.join(format!("{tag}.nt")), &cx.nontrivial_set);
    let _ = std::fs::write(rundir.join(format!("{tag}.json")), serde_json::to_vec(&cx.to_json()).unwrap());
    0
}

pub struct KnownFindings {
    /// id → (property, description)
    pub known: BTreeMap<String, (String, String)>,
}
pub fn load_known(verif: &Path) -> KnownFindings {
    let mut known = BTreeMap::new();
    if let Ok(s) = std::fs::read_to_string(verif.join("known_findings.json")) {
        if let Ok(v) = serde_json::from_str::<Value>(&s) {
            for f in v["findings"].as_array().cloned().unwrap_or_default() {
                if f["status"].as_str() == Some("known") {
                    known.insert(
                        f["id"].as_str().unwrap_or("").to_string(),
                        (f["property"].as_str().unwrap_or("").to_string(), f["what_fails"].as_str().unwrap_or("").to_string()),
                    );
                }
            }
        }
    }
    KnownFindings { known }
}

fn verif_dir() -> PathBuf {
    std::env::var("H2T_VERIF").map(PathBuf::from).unwrap_or_else(|_| PathBuf::from("/verif"))
}

struct Child {
    shard: u64,
    start_after: Option<u64>,
    proc: std::process::Child,
    done: bool,
}

fn spawn_worker(exe: &Path, prop: &str, tier: Tier, shard: u64, n: u64, start_after: Option<u64>, rundir: &Path) -> std::process::Child {
    let mut c = std::process::Command::new(exe);
    c.arg("--worker").arg(prop).arg(tier.name()).arg(shard.to_string()).arg(n.to_string()).arg(rundir);
    if let Some(s) = start_after {
        c.arg(s.to_string());
    }
    c.stdout(std::process::Stdio::null());
    c.stderr(std::process::Stdio::inherit());
    c.spawn().expect("spawn worker")
}

fn read_progress(rundir: &Path, shard: u64) -> Option<(u64, u64, u64, u64)> {
    read_progress_cpu(rundir, shard).map(|p| (p.0, p.1, p.2, p.3))
}
/// (unit, call, limit in s, wall-clock start in ms, CPU time of the worker at call start in ms)
fn read_progress_cpu(rundir: &Path, shard: u64) -> Option<(u64, u64, u64, u64, u64)> {
    let mut f = std::fs::File::open(rundir.join(format!("w{shard}.cur"))).ok()?;
    let mut rec = [0u8; 40];
    f.read_exact(&mut rec).ok()?;
    let g = |i: usize| u64::from_le_bytes(rec[i * 8..i * 8 + 8].try_into().unwrap());
    Some((g(0), g(1), g(2), g(3), g(4)))
}

fn describe_case(exe: &Path, prop: &str, tier: Tier, unit: u64, sub: u64, rundir: &Path) -> Value {
    let out = std::process::Command::new(exe)
        .arg("--describe").arg(prop).arg(tier.name()).arg(unit.to_string()).arg(sub.to_string()).arg(rundir)
        .stderr(std::process::Stdio::null())
        .output();
    match out {
        Ok(o) => {
            let s = String::from_utf8_lossy(&o.stdout);
            s.lines().last().and_then(|l| serde_json::from_str(l).ok()).unwrap_or(json!({"unit": unit, "call": sub, "note": "case could not be re-derived"}))
        }
        Err(_) => json!({"unit": unit, "call": sub}),
    }
}

/// Parent: explore the whole scope, aggregate, write evidence, print verdict lines.
pub fn explore_main(prop: &dyn Prop, tier: Tier, replay_one: impl Fn(&Value) -> (i32, String)) -> i32 {
    let t0 = Instant::now();
    let verif = verif_dir();
    let id = prop.id();
    let seed: i64 = std::env::var("VERIF_SEED").ok().and_then(|s| s.parse().ok()).unwrap_or(0);
    let rundir = verif.join(".run").join(format!("{id}-{}", tier.name()));
    let _ = std::fs::remove_dir_all(&rundir);
    std::fs::create_dir_all(&rundir).expect("rundir");
    std::fs::create_dir_all(verif.join("evidence")).ok();
    std::fs::create_dir_all(verif.join("replay")).ok();
    let exe = std::env::current_exe().expect("exe");
    let scope = prop.build(tier);
    let units = scope.units();
    let info = scope.info();
    drop(scope);
    let ncpu = std::thread::available_parallelism().map(|n| n.get() as u64).unwrap_or(4);
    let nworkers: u64 = std::env::var("H2T_WORKERS").ok().and_then(|s| s.parse().ok()).unwrap_or(ncpu).min(units.max(1));
    let known = load_known(&verif);

    let mut children: Vec<Child> = (0..nworkers)
        .map(|i| Child { shard: i, start_after: None, proc: spawn_worker(&exe, id, tier, i, nworkers, None, &rundir), done: false })
        .collect();
    // crash / hang witnesses found by the parent
    let mut crash_viol: Vec<(String, Value)> = vec![];
    let mut skipped_after_crash = 0u64;
    let mut tags: Vec<String> = vec![];
    let mut machinery_error: Option<String> = None;
    let mut aborted_early = false;
    loop {
        let mut all_done = true;
        let mut respawn: Vec<(u64, u64)> = vec![];
        for c in children.iter_mut() {
            if c.done {
                continue;
            }
            let status = c.proc.try_wait().ok().flatten();
            let prog = read_progress(&rundir, c.shard);
            let mut failed: Option<String> = None;
            match status {
                Some(st) if st.success() => {
                    c.done = true;
                    tags.push(match c.start_after {
                        Some(s) => format!("w{}r{}", c.shard, s),
                        None => format!("w{}", c.shard),
                    });
                }
                Some(st) => {
                    c.done = true;
                    use std::os::unix::process::ExitStatusExt;
                    failed = Some(match st.signal() {
                        Some(11) => "process died with SIGSEGV (stack exhaustion)".to_string(),
                        Some(6) => "process aborted (SIGABRT: allocation failure or panic while panicking)".to_string(),
                        Some(s) => format!("process killed by signal {s}"),
                        None => format!("worker exited with status {:?}", st.code()),
                    });
                    if st.signal().is_none() && st.code() != Some(101) {
                        // not a subject crash: the worker itself failed (e.g. internal assert)
                    }
                }
                None => {
                    all_done = false;
                    if let Some((u, _s, timeout, start)) = prog {
                        if u != u64::MAX && start > 0 && now_ms().saturating_sub(start) > timeout * 1000 {
                            // wall-clock time is only the trigger; the verdict needs the worker to
                            // have *computed* for that long inside this one call (two consistent
                            // reads of the progress record around the CPU reading)
                            let before = read_progress_cpu(&rundir, c.shard);
                            let cpu_now = cpu_ms_of(c.proc.id());
                            let after = read_progress_cpu(&rundir, c.shard);
                            if let (Some(b), Some(cpu_now), Some(a)) = (before, cpu_now, after) {
                                if b == a && b.0 == u && cpu_now.saturating_sub(b.4) > timeout * 1000 {
                                    let _ = c.proc.kill();
                                    let _ = c.proc.wait();
                                    c.done = true;
                                    failed = Some(format!("call did not return within {timeout} s of CPU time (watchdog)"));
                                }
                            }
                        }
                    }
                }
            }
            if let Some(why) = failed {
                if why.contains("signal 9") {
                    // SIGKILL comes from outside (OOM killer, an operator): not attributable to
                    // the subject with certainty – a machinery failure, never a verdict.
                    machinery_error = Some(format!("worker {} was killed by SIGKILL (out of memory?) while running unit/call {:?}", c.shard, prog.map(|p| (p.0, p.1))));
                    continue;
                }
                match prog {
                    Some((u, s, _, _)) if u != u64::MAX => {
                        let case = describe_case(&exe, id, tier, u, s, &rundir);
                        crash_viol.push((why, case));
                        skipped_after_crash += 1;
                        respawn.push((c.shard, u));
                    }
                    _ => {
                        machinery_error = Some(format!("worker {} failed outside a subject call: {why}", c.shard));
                    }
                }
            }
        }
        for (shard, after) in respawn {
            if crash_viol.len() >= 24 {
                // Every crash / hang is a violation witness already; stop exploring instead of
                // spending the budget on further watchdog expiries.  The run is reported as
                // not exhaustive.
                aborted_early = true;
                break;
            }
            // forget the stale progress record before restarting
            let _ = std::fs::remove_file(rundir.join(format!("w{shard}.cur")));
            children.push(Child { shard, start_after: Some(after), proc: spawn_worker(&exe, id, tier, shard, nworkers, Some(after), &rundir), done: false });
            all_done = false;
        }
        if aborted_early {
            for c in children.iter_mut() {
                if !c.done {
                    let _ = c.proc.kill();
                    let _ = c.proc.wait();
                    c.done = true;
                }
            }
            break;
        }
        if all_done || machinery_error.is_some() {
            break;
        }
        std::thread::sleep(Duration::from_millis(50));
    }
    if let Some(e) = machinery_error {
        for c in children.iter_mut() {
            let _ = c.proc.kill();
        }
        eprintln!("MACHINERY: {e}");
        return 2;
    }

    // aggregate
    let mut evals = 0u64;
    let mut cases = 0u64;
    let mut transitions = 0u64;
    let mut nt_count = 0u64;
    let mut nt_capped = false;
    let mut out_capped = false;
    let mut max_call_ms = 0u64;
    let mut outcomes: BTreeMap<String, u64> = BTreeMap::new();
    let mut stats: BTreeMap<String, u64> = BTreeMap::new();
    let mut viols: BTreeMap<String, (u64, Value)> = BTreeMap::new();
    let mut knowns: BTreeMap<String, (u64, Value)> = BTreeMap::new();
    let mut samples: Vec<Value> = vec![];
    let mut out_set: HashSet<u64> = HashSet::new();
    let mut nt_set: HashSet<u64> = HashSet::new();
    tags.sort();
    for tag in &tags {
        let p = rundir.join(format!("{tag}.json"));
        let v: Value = match std::fs::read(&p).ok().and_then(|b| serde_json::from_slice(&b).ok()) {
            Some(v) => v,
            None => {
                eprintln!("MACHINERY: missing worker result {}", p.display());
                return 2;
            }
        };
        evals += v["evals"].as_u64().unwrap_or(0);
        cases += v["cases"].as_u64().unwrap_or(0);
        transitions += v["transitions"].as_u64().unwrap_or(0);
        nt_count += v["nontrivial_count"].as_u64().unwrap_or(0);
        nt_capped |= v["nontrivial_capped"].as_bool().unwrap_or(false);
        out_capped |= v["out_capped"].as_bool().unwrap_or(false);
        max_call_ms = max_call_ms.max(v["max_call_ms"].as_u64().unwrap_or(0));
        for (k, n) in v["outcomes"].as_object().cloned().unwrap_or_default() {
            *outcomes.entry(k).or_default() += n.as_u64().unwrap_or(0);
        }
        for (k, n) in v["stats"].as_object().cloned().unwrap_or_default() {
            *stats.entry(k).or_default() += n.as_u64().unwrap_or(0);
        }
        for (k, r) in v["violations"].as_object().cloned().unwrap_or_default() {
            let e = viols.entry(k).or_insert((0, r["first"].clone()));
            e.0 += r["count"].as_u64().unwrap_or(0);
            // keep the smallest witness of the class (workers enumerate simplest-first, so the
            // first witness of each worker is small; the smallest of those is reported)
            if !r["first"].is_null() && (e.1.is_null() || r["first"].to_string().len() < e.1.to_string().len()) {
                e.1 = r["first"].clone();
            }
        }
        for (k, r) in v["known"].as_object().cloned().unwrap_or_default() {
            let e = knowns.entry(k).or_insert((0, r["first"].clone()));
            e.0 += r["count"].as_u64().unwrap_or(0);
        }
        if samples.len() < 6 {
            for s in v["samples"].as_array().cloned().unwrap_or_default().into_iter().take(2) {
                samples.push(s);
            }
        }
        read_set(&rundir.join(format!("{tag}.out")), &mut out_set);
        read_set(&rundir.join(format!("{tag}.nt")), &mut nt_set);
    }
    for (why, case) in crash_viol {
        let e = viols.entry(why).or_insert((0, json!({"case": case})));
        e.0 += 1;
    }
    let distinct_nontrivial = if nt_capped { nt_count } else { nt_set.len() as u64 };

    // verdict
    let mut exit = 0;
    let mut n_viol = 0u64;
    let mut known_hit: BTreeMap<String, u64> = BTreeMap::new();
    let mut lines: Vec<String> = vec![];
    for (kid, (count, first)) in &knowns {
        if let Some((p, what)) = known.known.get(kid) {
            if p == id {
                known_hit.insert(kid.clone(), *count);
                lines.push(format!("KNOWN-FINDING: property={id} {kid} {what} ({count} cases)"));
                continue;
            }
        }
        // classifier fired but the finding is not listed as known (never was, or is recorded as fixed)
        viols.entry(format!("unlisted finding footprint {kid}")).or_insert((0, first.clone())).0 += count;
    }
    let mut written = 0;
    for (class, (count, first)) in &viols {
        n_viol += count;
        exit = 1;
        if written >= 25 || first.is_null() {
            continue;
        }
        written += 1;
        let h = h64(format!("{class}{first}").as_bytes());
        let path = verif.join("replay").join(format!("{id}-{:016x}.json", h));
        let rec = json!({
            "property": id, "tier": tier.name(), "class": class, "count_in_run": count,
            "detail": first,
            "how_to_replay": format!("./check {id} --replay {}", path.display()),
        });
        let _ = std::fs::write(&path, serde_json::to_string_pretty(&rec).unwrap());
        // determinism: the witness must fail the same way in a fresh process
        let (code, _msg) = replay_one(&rec);
        if code == 0 && !class.contains("process") && !class.contains("watchdog") && !class.contains("time bound") {
            eprintln!("MACHINERY: replay of {} did not reproduce the violation (class {class:?})", path.display());
            return 2;
        }
        lines.push(format!("VIOLATION property={id} replay={}", path.display()));
        eprintln!("  class: {class} ({count} cases)");
    }

    let wall = t0.elapsed().as_secs_f64();
    let exhaustive = skipped_after_crash == 0 && !aborted_early;
    let ev = json!({
        "property_id": id,
        "tier": tier.name(),
        "seed": seed,
        "level": "model_checking",
        "coverage": {
            "states": cases.max(1),
            "transitions": transitions.max(1),
            "traces_validated_against_impl": cases,
            "samples": samples,
            "evaluations": evals,
            "distinct_nontrivial": distinct_nontrivial,
            "rule": info.rule,
            "exhaustive": exhaustive,
            "explanation": "states = explored histories (document/event-sequence x width x configuration [x call history]) executed on the real code; transitions = events fed along those histories; traces_validated = histories whose result was compared with the oracle (all). No state merging (renderer state is private).",
            "bounds": info.bounds,
            "units": units,
            "workers": nworkers,
            "outcomes": outcomes,
            "distinct_outputs": out_set.len(),
            "distinct_outputs_capped": out_capped,
            "distinct_nontrivial_exact": !nt_capped,
            "stats": stats,
            "known_findings_hit": known_hit,
            "violation_classes": viols.iter().map(|(k, v)| (k.clone(), v.0)).collect::<BTreeMap<_, _>>(),
            "max_call_ms": max_call_ms,
            "skipped_after_crash": skipped_after_crash,
            "aborted_after_many_crashes": aborted_early,
        },
        "assumptions": info.assumptions,
        "wall_s": (wall * 1000.0).round() / 1000.0,
        "violations": n_viol,
    });
    let evp = verif.join("evidence").join(format!("{id}.json"));
    if let Err(e) = std::fs::write(&evp, serde_json::to_string_pretty(&ev).unwrap()) {
        eprintln!("MACHINERY: cannot write evidence: {e}");
        return 2;
    }
    println!(
        "{id} {}: units={units} states={cases} transitions={transitions} calls={evals} nontrivial={distinct_nontrivial} distinct_outputs={} outcomes={:?} wall={:.1}s seed={seed}",
        tier.name(),
        out_set.len(),
        outcomes,
        wall
    );
    for l in lines {
        println!("{l}");
    }
    let _ = std::io::stdout().flush();
    exit
}

/// `--replay file`: re-run the recorded case through the property's oracle.
pub fn replay_main(prop: &dyn Prop, path: &Path, quiet: bool) -> i32 {
    run::install_panic_hook();
    let rec: Value = match std::fs::read(path).ok().and_then(|b| serde_json::from_slice(&b).ok()) {
        Some(v) => v,
        None => {
            eprintln!("MACHINERY: cannot read replay file {}", path.display());
            return 2;
        }
    };
    let tier = Tier::parse(rec["tier"].as_str().unwrap_or("quick")).unwrap_or(Tier::Quick);
    let mut cx = Cx::for_replay(tier);
    let detail = &rec["detail"];
    let case = if detail.get("case").is_some() { &detail["case"] } else { detail };
    // crash witnesses carry {"api":..,"case":..}
    let case = if case.get("case").is_some() { &case["case"] } else { case };
    prop.replay(case, &mut cx);
    let known = load_known(&verif_dir());
    let mut bad = 0;
    for (k, r) in &cx.violations {
        bad += 1;
        if !quiet {
            println!("violation class: {k}\n{}", serde_json::to_string_pretty(&r.first).unwrap());
        }
    }
    for (k, r) in &cx.known {
        if known.known.contains_key(k) {
            if !quiet {
                println!("KNOWN-FINDING: property={} {k}", prop.id());
            }
        } else {
            bad += 1;
            if !quiet {
                println!("unlisted finding footprint {k}\n{}", serde_json::to_string_pretty(&r.first).unwrap());
            }
        }
    }
    if bad > 0 {
        if !quiet {
            println!("VIOLATION property={} replay={}", prop.id(), path.display());
        }
        1
    } else {
        if !quiet {
            println!("replay: property held on this case");
        }
        0
    }
}
