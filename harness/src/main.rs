//! h2tmc – bounded exhaustive exploration of html2text's public API against reference
//! models, invariants and relations.  See /verif/DESIGN.md.
mod configs;
mod doc;
mod dom;
mod engine;
mod grid;
mod mutate;
mod props;
mod run;
mod universe;
mod util;

use engine::Tier;
use std::path::PathBuf;

fn usage() -> ! {
    eprintln!("usage: h2tmc Cxx quick|thorough | h2tmc Cxx --replay <file> [--quiet] | h2tmc --list");
    std::process::exit(2)
}

fn main() {
    let args: Vec<String> = std::env::args().skip(1).collect();
    if args.is_empty() {
        usage();
    }
    match args[0].as_str() {
        "--list" => {
            for p in props::all() {
                println!("{}", p.id());
            }
        }
        "--worker" => {
            // --worker Cxx tier shard nshards rundir [start_after]
            let prop = props::find(&args[1]).unwrap_or_else(|| usage());
            let tier = Tier::parse(&args[2]).unwrap_or_else(|| usage());
            let shard: u64 = args[3].parse().unwrap();
            let n: u64 = args[4].parse().unwrap();
            let rundir = PathBuf::from(&args[5]);
            let start_after = args.get(6).map(|s| s.parse().unwrap());
            std::process::exit(engine::worker_main(prop, tier, shard, n, start_after, &rundir, None));
        }
        "--describe" => {
            // --describe Cxx tier unit sub rundir
            let prop = props::find(&args[1]).unwrap_or_else(|| usage());
            let tier = Tier::parse(&args[2]).unwrap_or_else(|| usage());
            let unit: u64 = args[3].parse().unwrap();
            let sub: u64 = args[4].parse().unwrap();
            let rundir = PathBuf::from(&args[5]);
            std::process::exit(engine::worker_main(prop, tier, 0, 1, None, &rundir, Some((unit, sub))));
        }
        id => {
            let prop = props::find(id).unwrap_or_else(|| {
                eprintln!("unknown property {id}");
                usage()
            });
            if args.get(1).map(|s| s.as_str()) == Some("--replay") {
                let path = PathBuf::from(args.get(2).unwrap_or_else(|| usage()));
                let quiet = args.iter().any(|a| a == "--quiet");
                std::process::exit(engine::replay_main(prop, &path, quiet));
            }
            let tier_s = std::env::var("VERIF_TIER").ok().filter(|s| !s.is_empty()).or_else(|| args.get(1).cloned()).unwrap_or_else(|| "quick".into());
            let tier = Tier::parse(&tier_s).unwrap_or_else(|| usage());
            let exe = std::env::current_exe().unwrap();
            let id_s = id.to_string();
            let code = engine::explore_main(prop, tier, move |rec| {
                // replay the witness in a fresh process (with a time limit)
                let tmp = std::env::temp_dir().join(format!("h2tmc-replay-{}-{}.json", id_s, std::process::id()));
                let _ = std::fs::write(&tmp, serde_json::to_vec(rec).unwrap());
                let mut child = match std::process::Command::new(&exe).arg(&id_s).arg("--replay").arg(&tmp).arg("--quiet").stdout(std::process::Stdio::null()).stderr(std::process::Stdio::null()).spawn() {
                    Ok(c) => c,
                    Err(e) => return (2, format!("{e}")),
                };
                let t0 = std::time::Instant::now();
                let code = loop {
                    match child.try_wait() {
                        Ok(Some(st)) => break st.code().unwrap_or(139),
                        Ok(None) => {
                            if t0.elapsed().as_secs() > 120 {
                                let _ = child.kill();
                                let _ = child.wait();
                                break 124;
                            }
                            std::thread::sleep(std::time::Duration::from_millis(20));
                        }
                        Err(_) => break 2,
                    }
                };
                let _ = std::fs::remove_file(&tmp);
                (code, String::new())
            });
            std::process::exit(code);
        }
    }
}
