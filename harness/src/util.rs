//! Small shared helpers: display width, token alphabet, hashing.
use unicode_width::UnicodeWidthChar;

/// Display width of one character (control characters count 0, as the renderer does).
pub fn cw(c: char) -> usize {
    UnicodeWidthChar::width(c).unwrap_or(0)
}
/// Display width of a string, summed per character (the renderer sums per character too).
pub fn sw(s: &str) -> usize {
    s.chars().map(cw).sum()
}

/// Box drawing characters the renderer may add for tables.
pub const BOX: &str = "─┬┴┼│/";
pub fn is_rule_glyph(c: char) -> bool {
    matches!(c, '─' | '┬' | '┴' | '┼')
}

/// The token alphabet: document text is built from letters (ASCII lower case, CJK) and
/// combining marks; everything the renderer adds (prefixes, affixes, references, borders,
/// U+0336) is outside it.
pub fn is_tok(c: char) -> bool {
    c.is_alphabetic() || (cw(c) == 0 && !c.is_whitespace() && !c.is_control() && c != '\u{336}')
}
pub fn toks(s: &str) -> String {
    s.chars().filter(|&c| is_tok(c)).collect()
}

/// FNV-1a 64 bit – deterministic across runs and processes (no random state).
pub fn h64(bytes: &[u8]) -> u64 {
    let mut h: u64 = 0xcbf29ce484222325;
    for &b in bytes {
        h ^= b as u64;
        h = h.wrapping_mul(0x100000001b3);
    }
    h
}
pub fn h64_parts(parts: &[&[u8]]) -> u64 {
    let mut h: u64 = 0xcbf29ce484222325;
    for p in parts {
        for &b in *p {
            h ^= b as u64;
            h = h.wrapping_mul(0x100000001b3);
        }
        h ^= 0xff;
        h = h.wrapping_mul(0x100000001b3);
    }
    h
}

/// Mixed-radix decoding: the i-th digit of `code` in base `radix[i]`, least significant first.
pub fn decode(mut code: u64, radix: &[usize]) -> Vec<usize> {
    let mut v = Vec::with_capacity(radix.len());
    for &r in radix {
        v.push((code % r as u64) as usize);
        code /= r as u64;
    }
    v
}

/// All compositions of n (ordered sums of positive integers).
pub fn compositions(n: usize) -> Vec<Vec<usize>> {
    if n == 0 {
        return vec![vec![]];
    }
    let mut out = vec![];
    for first in 1..=n {
        for mut rest in compositions(n - first) {
            let mut v = vec![first];
            v.append(&mut rest);
            out.push(v);
        }
    }
    out
}

pub fn b64(bytes: &[u8]) -> String {
    const T: &[u8; 64] = b"ABCDEFGHIJKLMNOPQRSTUVWXYZabcdefghijklmnopqrstuvwxyz0123456789+/";
    let mut out = String::new();
    for ch in bytes.chunks(3) {
        let b = [ch[0], *ch.get(1).unwrap_or(&0), *ch.get(2).unwrap_or(&0)];
        let n = ((b[0] as u32) << 16) | ((b[1] as u32) << 8) | b[2] as u32;
        out.push(T[(n >> 18) as usize & 63] as char);
        out.push(T[(n >> 12) as usize & 63] as char);
        out.push(if ch.len() > 1 { T[(n >> 6) as usize & 63] as char } else { '=' });
        out.push(if ch.len() > 2 { T[n as usize & 63] as char } else { '=' });
    }
    out
}
pub fn unb64(s: &str) -> Vec<u8> {
    let val = |c: u8| -> u32 {
        match c {
            b'A'..=b'Z' => (c - b'A') as u32,
            b'a'..=b'z' => (c - b'a' + 26) as u32,
            b'0'..=b'9' => (c - b'0' + 52) as u32,
            b'+' => 62,
            b'/' => 63,
            _ => 0,
        }
    };
    let b = s.as_bytes();
    let mut out = vec![];
    for ch in b.chunks(4) {
        if ch.len() < 4 {
            break;
        }
        let n = (val(ch[0]) << 18) | (val(ch[1]) << 12) | (val(ch[2]) << 6) | val(ch[3]);
        out.push((n >> 16) as u8);
        if ch[2] != b'=' {
            out.push((n >> 8) as u8);
        }
        if ch[3] != b'=' {
            out.push(n as u8);
        }
    }
    out
}

/// A crude structural signature of a document used to group violation witnesses.
pub fn shape_key(html: &[u8]) -> String {
    let h = String::from_utf8_lossy(html);
    let mut tags: Vec<&str> = vec![];
    for t in ["table", "colspan", "pre", "ul", "ol", "blockquote", "h1", "h2", "h3", "dl", "<a ", "img", "中", "\t"] {
        if h.contains(t) {
            tags.push(t.trim_matches(|c| c == '<' || c == ' '));
        }
    }
    tags.join(",")
}
