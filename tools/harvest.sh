#!/bin/bash
# tools/harvest.sh <seed-id> <agent worktree> "<checks>" ["--features css"]
# Confirms an independently written property-breaking change (suite passes with it, the
# demonstration fails with it and passes without it) and files it under /verif/seeded/<id>/.
set -u
id="$1"; wt="$2"; checks="$3"; feat="${4:-}"
export CARGO_NET_OFFLINE=true
dst="/verif/seeded/$id"; mkdir -p "$dst"
# the agents' worktrees share one stash: trust the delivered patch.diff, not the tree's current state
if [ -s "$wt/patch.diff" ]; then ( cd "$wt" && git checkout -q -- src && git apply patch.diff ) || { echo "delivered patch.diff does not apply"; exit 2; }; fi
( cd "$wt" && git diff -- src > "$dst/patch.diff" )
cp "$wt/tests/seed_demo.rs" "$dst/seed_demo.rs"
cp "$wt/meta.txt" "$dst/agent_notes.txt" 2>/dev/null
cd "$wt"
s1=$(cargo test --offline --lib 2>&1 | grep -E "^test result" | head -1)
s2=$(cargo test --offline --lib --features css 2>&1 | grep -E "^test result" | head -1)
d1=$(cargo test --offline --test seed_demo $feat 2>&1 | grep -E "^test result" | head -1)
git apply -R "$dst/patch.diff"
d0=$(cargo test --offline --test seed_demo $feat 2>&1 | grep -E "^test result" | head -1)
git apply "$dst/patch.diff"
echo "suite: $s1"; echo "css suite: $s2"; echo "demo with change: $d1"; echo "demo without change: $d0"
python3 - "$id" "$checks" "$feat" "$s1" "$s2" "$d1" "$d0" <<'PY'
import json,sys,os
id,checks,feat,s1,s2,d1,d0=sys.argv[1:8]
dst=f"/verif/seeded/{id}"
notes=open(dst+"/agent_notes.txt").read() if os.path.exists(dst+"/agent_notes.txt") else ""
meta={"id":id,"breaks_property":id.split('-')[0],"checks":checks.split(),"features":feat,
 "written_by":"independent sub-agent given only the property text and a scratch worktree",
 "needs_to_manifest":"see agent_notes.txt",
 "confirmed":{"repo_suite_with_change":s1,"repo_suite_css_with_change":s2,"demo_with_change":d1,"demo_without_change":d0}}
json.dump(meta,open(dst+"/meta.json","w"),indent=1)
PY
