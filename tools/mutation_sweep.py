#!/usr/bin/env python3
"""Mutation sweep: a mechanical complement to the hand-written seeded changes (DESIGN §7.3).

For a deterministic sample of small syntactic mutants of the library source (never of
/repo itself – a scratch copy under /tmp/h2t-mut is mutated):
  1. build and run the repository's own suite (with and without the css feature); a mutant
     the suite notices is of no interest (the property checks exist for what it misses);
  2. run the quick tier of every check against the surviving mutant (fast checks first, stop
     at the first alarm);
  3. log one JSON line per mutant to the output file: killed by the suite / killed by check
     Cxx / SURVIVED (to be looked at by hand: equivalent mutant or coverage gap).

usage: tools/mutation_sweep.py --out FILE [--files a,b] [--stride N] [--offset K] [--limit M]
                               [--only-lines file:lo-hi]
"""
import argparse, json, os, re, subprocess, sys, time, shutil

VERIF = os.path.dirname(os.path.dirname(os.path.abspath(__file__)))
REPO = os.environ.get("H2T_REPO", "/repo")
WORK = "/tmp/h2t-mut"
FILES = ["src/lib.rs", "src/render/text_renderer.rs", "src/css.rs", "src/css/parser.rs", "src/markup5ever_rcdom.rs"]
ORDER = ["C20", "C12", "C13", "C14", "C15", "C09", "C07", "C17", "C03", "C19", "C16", "C11", "C02", "C18", "C08", "C06", "C05", "C10", "C01", "C04"]

# (name, regex, replacement) – applied to one match at a time
OPS = [
    ("le->lt", r" <= ", " < "), ("ge->gt", r" >= ", " > "), ("lt->le", r" < ", " <= "), ("gt->ge", r" > ", " >= "),
    ("eq->ne", r" == ", " != "), ("ne->eq", r" != ", " == "),
    ("and->or", r" && ", " || "), ("or->and", r" \|\| ", " && "),
    ("plus1->plus0", r" \+ 1\b", " + 0"), ("minus1->minus0", r" - 1\b", " - 0"),
    ("plus->minus", r" \+ (?![=0-9])", " - "), ("minus->plus", r" - (?![=>0-9])", " + "),
    ("pluseq->minuseq", r" \+= ", " -= "), ("minuseq->pluseq", r" -= ", " += "),
    ("true->false", r"\btrue\b", "false"), ("false->true", r"\bfalse\b", "true"),
    ("max->min", r"\.max\(", ".min("), ("min->max", r"\.min\(", ".max("),
    ("not-removed", r"!(?=self\.|[a-z_]+\.is_|[a-z_]+\()", ""),
    ("sat_sub->plain", r"\.saturating_sub\(([^()]*)\)", r" - (\1)"),
    ("unwrap_or0->1", r"unwrap_or\(0\)", "unwrap_or(1)"),
    ("zero->one", r"(?<=[=(,] )0(?=[;,)])", "1"), ("one->zero", r"(?<=[=(,] )1(?=[;,)])", "0"),
]
DELETE_STMT = re.compile(r"^\s*(self\.[a-z_.]+|[a-z_]+) (=|\+=|-=) [^=].*;\s*$")


def candidates(path, text):
    out = []
    in_test = False
    all_lines = text.split("\n")
    for ln, line in enumerate(all_lines):
        s = line.strip()
        if "#[cfg(test)]" in s:
            # an inline test module (they stand at the end of the file) ends the mutable part;
            # `#[cfg(test)] mod tests;` and test-only items are just skipped
            nxt = next((x.strip() for x in all_lines[ln + 1 :] if x.strip() and not x.strip().startswith("#[")), "")
            if nxt.startswith("mod ") and nxt.endswith("{"):
                in_test = True
            continue
        if in_test:
            continue
        if s.startswith("//") or s.startswith("#[") or s.startswith("html_trace") or "debug_assert" in s or s.startswith("use ") or s.startswith("///"):
            continue
        code = line.split("//")[0]
        if '"' in code:
            # do not mutate inside string literals: keep only the part outside quotes simple – skip such lines
            # unless the operator match lies before the first quote
            code_part = code.split('"')[0]
        else:
            code_part = code
        for name, rx, rep in OPS:
            for m in re.finditer(rx, code_part):
                new = line[: m.start()] + m.expand(rep) + line[m.end():]
                if new != line:
                    out.append((path, ln, name, line, new))
        if DELETE_STMT.match(code) and "let " not in code:
            out.append((path, ln, "stmt-deleted", line, re.sub(r"\S.*$", "// (statement removed)", line, count=1)))
    return out


def sh(cmd, cwd=None, timeout=900, env=None):
    e = dict(os.environ, CARGO_NET_OFFLINE="true")
    if env:
        e.update(env)
    try:
        p = subprocess.run(cmd, shell=True, cwd=cwd, stdout=subprocess.PIPE, stderr=subprocess.STDOUT, timeout=timeout, env=e, text=True, errors="replace")
        return p.returncode, p.stdout
    except subprocess.TimeoutExpired as ex:
        pass
        return 124, (ex.stdout or "") if isinstance(ex.stdout, str) else ""


def main():
    ap = argparse.ArgumentParser()
    ap.add_argument("--out", required=True)
    ap.add_argument("--files", default=",".join(FILES))
    ap.add_argument("--stride", type=int, default=25)
    ap.add_argument("--offset", type=int, default=0)
    ap.add_argument("--limit", type=int, default=10**9)
    ap.add_argument("--only-lines", default="")
    ap.add_argument("--checks", default=",".join(ORDER))
    ap.add_argument("--name", default="mut")
    ap.add_argument("--recheck", default="", help="re-run the checks on the SURVIVED mutants of an earlier result file (matched by line text)")
    a = ap.parse_args()
    checks = a.checks.split(",")
    os.makedirs(WORK, exist_ok=True)
    repo = f"{WORK}/{a.name}/repo"
    os.makedirs(repo, exist_ok=True)
    sh(f"rsync -r --checksum --no-times --delete --exclude target --exclude .git --exclude html2text-web-demo --exclude pages {REPO}/ {repo}/")
    # a private pristine copy: /repo may move on while the sweep runs
    base = f"{WORK}/{a.name}/base"
    os.makedirs(base, exist_ok=True)
    sh(f"rsync -r --checksum --no-times --delete --exclude target --exclude .git --exclude html2text-web-demo --exclude pages {REPO}/ {base}/")
    cands = []
    for f in a.files.split(","):
        text = open(f"{base}/{f}").read()
        cands += candidates(f, text)
    if a.only_lines:
        f, r = a.only_lines.split(":")
        lo, hi = map(int, r.split("-"))
        cands = [c for c in cands if c[0] == f and lo <= c[1] + 1 <= hi]
    chosen = cands[a.offset :: a.stride][: a.limit]
    if a.recheck:
        want = set()
        for l in open(a.recheck):
            d = json.loads(l)
            if d["result"] == "SURVIVED":
                want.add((d["file"], d["op"], d["before"], d["after"]))
        chosen = [c for c in cands if (c[0], c[2], c[3].strip(), c[4].strip()) in want]
    print(f"{len(cands)} candidate mutants, {len(chosen)} chosen (stride {a.stride}, offset {a.offset})", flush=True)
    done = set()
    if os.path.exists(a.out):
        for l in open(a.out):
            try:
                d = json.loads(l)
                done.add((d["file"], d["line"], d["op"], d["after"]))
            except Exception:
                pass
    out = open(a.out, "a")
    for (f, ln, op, before, after) in chosen:
        if (f, ln + 1, op, after.strip()) in done:
            continue
        t0 = time.time()
        orig = open(f"{base}/{f}").read()
        lines = orig.split("\n")
        assert lines[ln] == before
        lines[ln] = after
        open(f"{repo}/{f}", "w").write("\n".join(lines))
        rec = {"file": f, "line": ln + 1, "op": op, "before": before.strip(), "after": after.strip()}
        rc1, o1 = sh("timeout 600 cargo test --offline --lib 2>&1 | tail -40", cwd=repo, timeout=700)
        ok1 = "test result: ok. 107 passed" in o1
        if "error" in o1 and "could not compile" in o1:
            rec["result"] = "does not compile"
        elif not ok1:
            rec["result"] = "killed by the repository suite"
        else:
            rc2, o2 = sh("timeout 600 cargo test --offline --lib --features css 2>&1 | tail -40", cwd=repo, timeout=700)
            if "test result: ok. 146 passed" not in o2:
                rec["result"] = "killed by the repository suite (css)"
            else:
                killed = None
                for c in checks:
                    rc, o = sh(f"{VERIF}/tools/altcheck.sh {a.name} {repo} {c} quick", timeout=1500)
                    if rc == 1 and f"VIOLATION property={c}" in o:
                        cls = [l.strip() for l in o.split("\n") if l.strip().startswith("class:")][:2]
                        killed = (c, cls)
                        break
                    if rc not in (0, 1):
                        rec.setdefault("machinery", []).append({"check": c, "rc": rc, "tail": o[-300:]})
                if killed:
                    rec["result"] = f"killed by {killed[0]}"
                    rec["classes"] = killed[1]
                else:
                    rec["result"] = "SURVIVED"
        rec["seconds"] = round(time.time() - t0, 1)
        out.write(json.dumps(rec) + "\n")
        out.flush()
        print(json.dumps(rec)[:300], flush=True)
        open(f"{repo}/{f}", "w").write(orig)
    shutil.rmtree(f"/tmp/h2t-alt/{a.name}", ignore_errors=True)
    shutil.rmtree(f"{WORK}/{a.name}", ignore_errors=True)


if __name__ == "__main__":
    main()
