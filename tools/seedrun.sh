#!/bin/bash
# tools/seedrun.sh <seed-id> <agent worktree> "<checks>" ["--features css"]
# harvest (confirm suite/demo) then run the listed quick checks against the worktree with the change applied.
id="$1"; wt="$2"; checks="$3"; feat="${4:-}"
V="$(cd "$(dirname "${BASH_SOURCE[0]}")/.." && pwd)"
"$V/tools/harvest.sh" "$id" "$wt" "$checks" "$feat" 2>&1 | tail -4
for c in $checks; do
  out=$("$V/tools/altcheck.sh" "seed-$id" "$wt" "$c" quick 2>&1); code=$?
  nv=$(echo "$out" | grep -c "^VIOLATION property=$c ")
  echo "$id: check $c -> exit $code, $nv VIOLATION line(s)$(echo "$out" | grep -E 'class:' | head -3 | sed 's/^/ ; /' | tr -d '\n' | cut -c1-400)"
done
rm -rf "/tmp/h2t-alt/seed-$id"
