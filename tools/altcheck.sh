#!/bin/bash
# Run checks against another tree (the original commit, a seeded change) without touching
# /verif's own staging, build output, evidence or replay files.
#   tools/altcheck.sh <name> <repo-dir> Cxx quick|thorough [...]
# Work root: /tmp/h2t-alt/<name> (remove it when done: rm -rf /tmp/h2t-alt/<name>).
set -u
name="$1"; repo="$2"; shift 2
VERIF="$(cd "$(dirname "${BASH_SOURCE[0]}")/.." && pwd)"
ROOT="/tmp/h2t-alt/$name"
mkdir -p "$ROOT/.stage/html2text" "$ROOT/evidence" "$ROOT/replay" "$ROOT/.run"
rsync -r --checksum --no-times --delete --exclude target "$VERIF/harness/" "$ROOT/harness/" || exit 2
rsync -r --checksum --no-times --delete --exclude target --exclude .git --exclude html2text-web-demo --exclude pages "$repo"/ "$ROOT/.stage/html2text/" || exit 2
cp "$VERIF/known_findings.json" "$ROOT/known_findings.json"
( cd "$ROOT/harness" && CARGO_NET_OFFLINE=true CARGO_TARGET_DIR="$ROOT/.target" cargo build --release --offline 2>"$ROOT/.run/build.log" ) || { echo "MACHINERY: build failed"; tail -30 "$ROOT/.run/build.log"; exit 2; }
H2T_VERIF="$ROOT" exec "$ROOT/.target/release/h2tmc" "$@"
