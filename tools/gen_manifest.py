#!/usr/bin/env python3
"""Regenerates /verif/MANIFEST.json from the table below (kept here so the file stays consistent)."""
import json, os, sys
V = os.path.dirname(os.path.dirname(os.path.abspath(__file__)))
props = [json.loads(l) for l in open(os.path.join(V, "properties.jsonl"))]

# id -> (technique, level text, level note, design ref)
CLAIMS = {
 "C01": ("bounded exhaustive enumeration of inputs (token-soup sequences, all short byte strings, numeric-attribute products, all single-byte corruptions, deep nesting) x widths 0..usize::MAX x 5 decorators x deviation-bounded configurations, each executed on the real code in watched worker processes",
         "Every execution must return Ok or TooNarrow (CssParseError only when CSS was supplied). The explored build has debug assertions and overflow checks on, so arithmetic overflow and debug_assert failures are panics; every call runs on a worker process's 8 MiB main-thread stack with a per-call progress record, so a panic, Error::Fail, abort, SIGSEGV or watchdog expiry is attributed to the exact (input, width, configuration).",
         "bytes* is infinite: coverage is the stated bounded families (<=2..4 soup tokens, <=6 bytes, one byte edit, nesting depth 1e3/1e4 quick, 1e5 thorough). 'Never hangs' is decided up to the watchdog.", "DESIGN.md §4 C01"),
 "C10": ("bounded exhaustive enumeration of call histories on the staged API (render/clone/rebuild operations over a width set) and of one-shot routes x configurations, on the real code; every result compared with a memoised fresh one-shot rendering",
         "For every document and configuration every operation sequence of length <= 3 (quick) / <= 4 (thorough) over {render_to_string(clone,w), render_to_lines(clone,w), clone tree, rebuild tree, render_coloured} with widths {0,1,3,7,20}, followed by rendering the original tree, is executed; each result must equal string_from_read at that width. All one-shot routes (lines, coloured, from_read*, parse+render, staged) must agree and repeated calls must be identical.",
         "Histories over depth<=1 documents + table slice; routes over depth<=2 documents, widths 0..=12 / 0..=40, all deviation-1 configurations.", "DESIGN.md §4 C10"),
 "C16": ("bounded exhaustive enumeration of decorator parameter deviations (12 string parameters x menu of non-ASCII/wide/empty values) x documents x widths on the real code with a harness-implemented TextDecorator; invariants, affix reference strings and the compositionality relation",
         "For the ASCII base decorator and every deviation of one (thorough: two) parameters: no panic (debug assertions on), width bound, text conservation, affixes verbatim around element text (exact expected line), and C07's compositionality relation with prefixes measured by display width; plus the trivial decorator's 'nothing but document text' over the grammar incl. superscripts.",
         "Decorator strings contain no token characters. Bounds: documents depth <=1/<=2, widths 4..=24 / 4..=80.", "DESIGN.md §4 C16"),
 "C17": ("bounded exhaustive enumeration of CSS inputs (all token sequences up to length 4/5 over a 30-token alphabet, every truncation of valid sheets, extreme nth-child coefficients) through all four CSS entry routes, and of (sheet, syntax rewrite) pairs compared by a relation between two executions",
         "Totality: every enumerated string must give Ok or CssParseError (and leave the document's text unchanged when it sits in <style> or a style attribute), each call watched for hangs. Equivalence: every rule set of 1..2 (thorough 3) rules in 27 syntactic spellings (minified, commented, semicolon variants, unknown properties/at-rules/unparsable rule sets around, case) must style the document identically (rich line output) through add_css, add_agent_css and <style>.",
         "The alphabet cannot spell display/content/white-space declarations.", "DESIGN.md §4 C17"),
 "C18": ("bounded exhaustive enumeration of (document, hidden element, way of hiding) x widths; relation between two executions of the real code (hidden by CSS vs subtree deleted from the DOM)",
         "Every element of every valid grammar document is hidden in turn through 5 (quick) / 8 (thorough) mechanisms (class/id/descendant selectors in user, agent or document sheets, inline display:none, height/overflow idiom); the rendering must equal that of the document with the subtree replaced by an empty comment (string output, and rich lines incl. fragment markers); with document CSS off, style elements and attributes must have no effect.",
         "Single hidden element per case; grammar depth <=2 quick / <=3 thorough.", "DESIGN.md §4 C18"),
 "C19": ("complete enumeration of declaration tuples (origin x importance x specificity class x source order, length 2..3/4) and of small sheets on an ancestor chain, on the real code, compared with a reference cascade",
         "All ordered tuples of 2..3 (thorough 4) declarations from the 32-element product {agent,user,author,inline} x {normal,!important} x 5 specificity classes on one element, for color and background-color, same-origin declarations in one sheet and split over two; plus all sheets of <= 3 (thorough 4) colour rules over 7 selectors on a three-deep chain: the annotation of each token must equal the reference cascade's winner on the nearest enclosing element with a declaration.",
         "Reference cascade is a 15-line lexicographic rank.", "DESIGN.md §4 C19"),
 "C20": ("complete enumeration of selectors (compounds x combinators up to 3/4 steps, selector lists, all :nth-child(an+b) for a,b in -5..=5 on sibling lists of 0..8) x documents on the real code, compared with an independent reference matcher over the oracle DOM",
         "For every selector the set of coloured token letters must equal the set computed by a 40-line right-to-left reference matcher with explicit ancestor search over the harness's own DOM; documents have nesting to depth 5, repeated classes on ancestor chains, and text/comment nodes between element siblings.",
         "Known finding KF-C20-1 (style on tbody/thead/tfoot dropped) recognised by a fixed classifier.", "DESIGN.md §4 C20"),
 "C08": ("complete enumeration of link placements (containers x link contents, up to 3/4 links) x widths x footnote configurations on the real code; references and footnote list compared with reference numbering derived from the oracle DOM",
         "Every document of 0..3 (quick) / 0..4 (thorough) links, each in one of 8 containers with one of 6 contents, is rendered with footnotes on and off under plain, trivial and rich decorators; the trailing list must be exactly '[k]: target' of the k-th link with content, the references 1..n must follow their link texts in document order, and nothing of the sort may appear when disabled.",
         "Targets are short so footnote lines do not wrap; inside side-by-side table rows only the multiset of references is compared. Known finding KF-C08-1 (deeply empty link) recognised by a fixed classifier.", "DESIGN.md §4 C08"),
 "C09": ("complete enumeration of inline nesting chains x block contexts x widths on the real code; tag vector of every token character compared with the ancestor chain in the oracle DOM",
         "For every chain of up to 2 (quick) / 3 (thorough) inline wrappers out of 13 (emphasis, strong, strikeout, code, link, image, sup, inline-style/class/attribute colours) in 19 block contexts (incl. coloured tables, lists, quotes, pre, nested tables) and every width, each token character's annotation vector must equal the reference vector (outermost first, colours before the element's own annotation), non-text pieces may only carry prefixes of such vectors, and the pieces must concatenate to the string output.",
         "Preformat's continuation flag is C12's; RichAnnotation::Default is neutral. Known finding KF-C09-1 (Preformat always last) recognised by a fixed classifier.", "DESIGN.md §4 C09"),
 "C12": ("complete enumeration of preformatted blocks (line shapes^k) x contexts x markup variants x widths on the real code, compared with a reference tab expander",
         "Every pre block of up to 3 (quick) / 4 (thorough) lines over 13 line shapes, at top level / in a list item / in a quote, as plain text / with inline markup / with <br> separators, at every width: blocks that fit must be reproduced line for line (tabs to 8-column stops, only trailing spaces removed, all pieces Preformat(false)); blocks that do not fit must keep all non-space characters in order within the width, with first pieces tagged Preformat(false).",
         "Known finding KF-C12-1 (continuation flag wrong on some overflow pieces) recognised by a fixed classifier.", "DESIGN.md §4 C12"),
 "C14": ("complete enumeration of (document, element carrying the id) pairs x widths on the real code; marker count and position compared with token counts from the oracle DOM",
         "For every valid grammar document and every element of it in turn carrying id=F (anchors also name=F), at every width: exactly one FragmentStart(F) if the element has visible text, located exactly between the text preceding the element and its first character (count oracle with tables), never more than one otherwise, and the text is identical with and without the id.",
         "Bounds: grammar depth <=2 quick / <=3 thorough with tables and pre; widths <=20/<=30.", "DESIGN.md §4 C14"),
 "C05": ("complete enumeration of regular tables (all colspan tilings x all content classes) x widths on the real code; output parsed into a character-cell grid and checked against the box-drawing invariants",
         "Every regular table of the listed shapes, with every colspan tiling of every row and every combination of 5 content classes, is rendered at every width; the output is mapped to display cells and must be either a well-formed stacked table or a side-by-side table with equal line widths, rule first/last, bars on every line of a band and junction glyphs that match the bars above and below at every position.",
         "Shapes up to 2x3 quick, up to 3x2 / 2x4 thorough; widths <=30/<=60. Known finding KF-C05-1 (ragged line with a zero-width column inside a colspan, pinned by test_colspan_large) recognised by a fixed classifier.", "DESIGN.md §4 C05"),
 "C06": ("complete enumeration of regular tables with one unique token per cell x widths on the real code; tokens located in the parsed grid and compared with the source grid",
         "Same universe as C05 with one letter per cell: every token must lie in the band of its row and in the segment between the bars of the columns it spans, cell and row order must equal source order, column boundaries must agree across rows, every non-empty cell must appear and no line may exceed the table's width.",
         "Known finding KF-C06-1 (same root cause as KF-C05-1) recognised by a fixed classifier.", "DESIGN.md §4 C06"),
 "C07": ("bounded exhaustive enumeration of wrapper blocks x contents x widths x configurations on the real code; compositionality relation (outer rendering = prefixes + separately rendered contents) with reference list numbering",
         "For every wrapper (quote, bullet list, headings, definition, ordered lists over 11 start values and up to 15 items) around every content document of the grammar, at every width and configuration, the outer rendering produced by the real code must equal the concatenation of prefix + the real code's rendering of each item's content at width minus prefix width; markers and padding come from a 10-line reference.",
         "Contents: valid grammar documents depth <=1 quick / <=2 thorough (prefixes stack up to 3/4 deep); footnotes disabled.", "DESIGN.md §4 C07"),
 "C11": ("bounded exhaustive enumeration of documents (grammar, table slice, all single-byte corruptions) x widths (0 included) x min_wrap_width x options; each case is a pair of executions of the real code with/without allow_width_overflow, related by the property's four clauses",
         "Width 0 must give TooNarrow; with overflow every width >= 1 must give Ok; a successful rendering must be unchanged by allowing overflow; overflowing lines of table-free documents are bounded by max(w, P + max(min_wrap_width, 5)) with P computed from the oracle DOM.",
         "Bounds: grammar depth <=2/<=3, widths 0..=12 / 0..=60, min_wrap_width in {3,0,1,6,10}.", "DESIGN.md §4 C11"),
 "C13": ("bounded exhaustive enumeration of documents x source rewrites x widths; each case is a pair of executions of the real code (original vs rewritten source) that must agree",
         "Every table-free, pre-free grammar document is rewritten in 8 ways (whitespace runs, comments next to whitespace, spans around text nodes / words, indentation between block tags) and both sources are rendered at every width with plain and rich decorators; results must be identical.",
         "Known finding KF-C13-1 (TooNarrow vs Ok when a rewrite splits a text node) is recognised by a fixed classifier; when both succeed, byte equality is still required.", "DESIGN.md §4 C13"),
 "C15": ("bounded exhaustive enumeration of documents x widths x single-option deviations; each case relates the base execution with the execution under one changed option",
         "About 20 executions per (document, width, decorator): max_wrap_width(m>=w) no-op and m<w bound, padding only appends spaces, strikeout only adds U+0336, no borders/raw mode leave no box characters and are no-ops without tables, footnote and link-wrapping options are no-ops without links and do not touch the body, min_wrap_width never changes a successful table-free rendering.",
         "Bounds: grammar depth <=2/<=3 + table slice, widths <=14 / <=60.", "DESIGN.md §4 C15"),
 "C02": ("bounded exhaustive enumeration of documents (grammar, seeds, table slice, all single-byte corruptions) x widths x deviation-bounded configurations on the real code; width invariant checked on every line of every successful rendering",
         "Every document of the bounded grammar, every regression seed and every single-byte corruption of the small documents is rendered at every width in range under every configuration of deviation <= 2 (without overflow / no_link_wrapping) with the plain, rich and trivial decorators; the display width of every output line (string and line APIs) is compared with the requested width.",
         "Bounds: grammar depth <=2 quick / <=3 thorough, widths <=16 / <=120; corruption = one byte edit over a 14-byte alphabet; trusts unicode-width.", "DESIGN.md §4 C02"),
 "C03": ("bounded exhaustive enumeration of documents (grammar, structural extras, table slice, all single tag-token corruptions) x widths x configurations on the real code; output token stream compared with a reference visible-text extraction from an independent html5ever TreeSink",
         "The reference model is a 40-line visible-text walk over the harness's own DOM (built by its own TreeSink from the same bytes, so it stays valid for mis-nested input). For every explored (document, width, configuration) the token characters of the output must equal it as a sequence (table-free documents, raw mode) or as a multiset (tables); under the trivial decorator nothing else but whitespace and borders may appear.",
         "html5ever's tokenizer/tree builder is shared by subject and oracle. Known finding KF-C03-1 (stray children of ol/dl) is recognised by a fixed classifier.", "DESIGN.md §4 C03"),
 "C04": ("bounded exhaustive enumeration of word sequences x markup splittings x contexts x widths on the real code, compared with a reference greedy wrapper",
         "Every word sequence up to the bound, in every splitting into text nodes/inline elements, block context, width and max_wrap_width, is rendered by the real library and compared line-for-line with a 40-line reference greedy wrapper whose own post-conditions are asserted on every call.",
         "Small-scope: <=4 (quick) / <=5 (thorough) words from a 14-shape menu, widths <=10 / <=40; trusts unicode-width and html5ever's parser.", "DESIGN.md §4 C04"),
}
NOT_BUILT = "check not built yet in this round (work in progress); see DESIGN.md"

checks, na = [], []
for p in props:
    i = p["id"]
    if i in CLAIMS:
        tech, text, note, ref = CLAIMS[i]
        checks.append({
            "property_id": i,
            "quick_cmd": f"./check {i} quick",
            "thorough_cmd": f"./check {i} thorough",
            "evidence_file": f"/verif/evidence/{i}.json",
            "replay_cmd_template": f"./check {i} --replay {{path}}",
            "engine": "h2tmc",
            "level_claimed": {"category": "model_checking", "text": text, "design_ref": ref},
            "level_note": note,
            "technique": tech,
        })
    else:
        na.append({"property_id": i, "reason": NOT_BUILT})
m = {
 "version": 1,
 "setup_cmd": "./check --setup",
 "hooks": {
   "guard": "html2text_verif",
   "enable": "none needed: every check drives the public API of the unmodified crate (built from /repo's working tree with features=[css], debug-assertions and overflow-checks on)",
   "baseline_off_cmd": "cd /repo && cargo test --workspace --no-fail-fast --offline",
   "source_commits": [],  # no hooks: public API only
   "add_only": True,
 },
 "engines": [{"name": "h2tmc", "path": "/verif/harness", "serves_properties": [c["property_id"] for c in checks],
              "kind_free_text": "hand-rolled deterministic explicit-state explorer: sharded exhaustive enumeration of input/event/configuration/call histories executed on the real code in worker processes (crash and hang attribution), oracles = reference models, invariants, relations"}],
 "checks": checks,
 "not_applicable": na,
 "notes": "All checks: cwd=/verif; ./check stages /repo's working tree (H2T_REPO overrides) and rebuilds offline. exit 0 held / 1 VIOLATION / 2 machinery failure. Known findings: /verif/known_findings.json.",
}
json.dump(m, open(os.path.join(V, "MANIFEST.json"), "w"), indent=1)
print("checks:", len(checks), "not_applicable:", len(na))
